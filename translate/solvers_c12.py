"""Translate the loop bodies of the solvers that translate/solvers.py (C11) does not cover --
conjugate_gradient, conjugate_gradient_normal, power_method_opnorm, forward_backward_pd --
from /repo's current source into Gallina functions over the SAME generic vector operations as
coq/C12/Model.v  ->  coq/Gen/SolversC12.v.  coq/C12/GenC12.v proves the hand-written models equal to
these regenerated functions, so an edit of a loop body breaks a proof.

Method: symbolic execution of the straight-line Python with OBJECT IDENTITY: every name is bound to an
object id, an in-place operation (`x.lincomb(..)`, `op(p, out=d)`, `x += ..`, `x /= s`, `x.assign(y)`)
replaces the value of the object, `a = b` makes two names share one object, `b.copy()`, `op(x)`,
`a + b`, `s * a` create new objects.  (This is what makes `x_old = x` in forward_backward_pd visible.)

Fail closed (TranslateError): any statement, expression, test or call outside the patterns below;
a read of an uninitialised buffer (`space.element()`); a write to a parameter that is not part of the
state; two state vectors sharing one object at a loop head.

Trusted mappings (not proved here, properties C01/C02/C03):
  v.norm() ** 2  -> <v,v>      a.inner(b) -> <a,b>      v.norm() -> sqrt <v,v>      np.sqrt -> sqrt
  x.lincomb(a,u,b,v) -> a*u + b*v      x /= s -> (1/s) * x      a - b -> a + (-1)*b
  E + sum(Li.adjoint(vi) for Li, vi in zip(L, v)) -> left fold of + over the blocks starting from E
  `if TEST: raise ...` listed under skip_tests (argument validation) and `callback(..)` are dropped;
  tests listed under flags are resolved to the configured constant (e.g. `use_normal`, `l is not None`).
"""
import ast
import os

from harness import common as C


class SX(object):
    def __init__(self, name, cfg):
        self.name, self.cfg = name, cfg
        self.env = {}          # python name -> ('vec', objid) | ('scal', gallina expr) | ('op', key)
        self.val = {}          # objid -> (gallina expr or None for junk, space 'V'|'W')
        self.readonly = set()  # object ids of parameters that must not be written
        self.lines = []        # emitted `let` / `if` lines
        self.n = 0
        self.nobj = 0
        for nm in cfg.get('scalars', ()):      # scalar parameters of the call
            self.env[nm] = ('scal', nm)

    # ----------------------------------------------------------------- utils
    def err(self, node, why):
        raise C.TranslateError('%s line %s: %s: %s' % (self.name, getattr(node, 'lineno', '?'), why,
                                                        ast.unparse(node)[:140] if isinstance(node, ast.AST) else node))

    def fresh(self, hint):
        self.n += 1
        return '%s_%d' % (hint, self.n)

    def new_obj(self, expr, space, hint='v', bind=True):
        self.nobj += 1
        oid = self.nobj
        if expr is not None and bind:
            v = self.fresh(hint)
            self.lines.append('let %s := %s in' % (v, expr))
            expr = v
        self.val[oid] = (expr, space)
        return oid

    def write(self, node, oid, expr, hint='v'):
        if oid in self.readonly:
            self.err(node, 'in-place write to a parameter that is not part of the modelled state')
        space = self.val[oid][1]
        v = self.fresh(hint)
        self.lines.append('let %s := %s in' % (v, expr))
        self.val[oid] = (v, space)

    def ops(self, space):
        return ('addV', 'scalV', 'ipV') if space == 'V' else ('addW', 'scalW', 'ipW')

    # --------------------------------------------------------------- scalars
    def is_scalar(self, e):
        if isinstance(e, ast.Constant) and isinstance(e.value, (int, float)) and not isinstance(e.value, bool):
            return True
        if ast.unparse(e) in self.cfg.get('scalar_consts', {}):
            return True
        if isinstance(e, ast.Name):
            return self.env.get(e.id, ('?',))[0] == 'scal'
        if isinstance(e, ast.Subscript) and isinstance(e.value, ast.Name) and e.value.id in self.cfg.get('slists', {}):
            return True
        if isinstance(e, ast.UnaryOp) and isinstance(e.op, ast.USub):
            return self.is_scalar(e.operand)
        if isinstance(e, ast.BinOp):
            if isinstance(e.op, ast.Pow):
                return True
            return self.is_scalar(e.left) and self.is_scalar(e.right)
        if isinstance(e, ast.Call):
            f = ast.unparse(e.func)
            return f in ('np.sqrt', 'np.abs') or f.endswith('.norm') or f.endswith('.inner') \
                or f in self.cfg.get('sfuncs', {})
        return False

    def scal(self, e):
        src = ast.unparse(e)
        if src in self.cfg.get('scalar_consts', {}):
            return self.cfg['scalar_consts'][src]
        if isinstance(e, ast.Constant):
            v = e.value
            if float(v) == 1.0:
                return 'none_'
            if float(v) == 0.0:
                return 'nzero'
            if float(v).is_integer():
                return '(of_Z %s)' % C.z(int(v))
            return '(of_Q %s)' % C.q(v)
        if isinstance(e, ast.Name):
            k = self.env.get(e.id)
            if not k or k[0] != 'scal':
                self.err(e, 'not a scalar')
            return k[1]
        if isinstance(e, ast.Subscript) and isinstance(e.value, ast.Name) and e.value.id in self.cfg.get('slists', {}):
            if ast.unparse(e.slice) != self.cfg.get('index'):
                self.err(e, 'scalar list indexed by something else than the loop index')
            return self.cfg['slists'][e.value.id]
        if isinstance(e, ast.UnaryOp) and isinstance(e.op, ast.USub):
            return '(- %s)' % self.scal(e.operand)
        if isinstance(e, ast.BinOp) and isinstance(e.op, ast.Pow):
            # v.norm() ** 2  ->  <v, v>
            if (isinstance(e.right, ast.Constant) and e.right.value == 2 and isinstance(e.left, ast.Call)
                    and isinstance(e.left.func, ast.Attribute) and e.left.func.attr == 'norm' and not e.left.args):
                x, sp = self.vec(e.left.func.value)
                return '(%s %s %s)' % (self.ops(sp)[2], x, x)
            self.err(e, 'power other than v.norm() ** 2')
        if isinstance(e, ast.BinOp) and type(e.op) in (ast.Add, ast.Sub, ast.Mult, ast.Div):
            o = {ast.Add: '+', ast.Sub: '-', ast.Mult: '*', ast.Div: '/'}[type(e.op)]
            return '(%s %s %s)' % (self.scal(e.left), o, self.scal(e.right))
        if isinstance(e, ast.Call):
            f = e.func
            if ast.unparse(f) == 'np.sqrt' and len(e.args) == 1:
                return '(rt %s)' % self.scal(e.args[0])
            if ast.unparse(f) == 'np.abs' and len(e.args) == 1:
                return '(nabs %s)' % self.scal(e.args[0])
            if ast.unparse(f) in self.cfg.get('sfuncs', {}) and len(e.args) == 1 and not e.keywords:
                a, sa = self.vec(e.args[0])
                return '(%s %s)' % (self.cfg['sfuncs'][ast.unparse(f)], a)
            if isinstance(f, ast.Attribute) and f.attr == 'norm' and not e.args:
                x, sp = self.vec(f.value)
                return '(rt (%s %s %s))' % (self.ops(sp)[2], x, x)
            if isinstance(f, ast.Attribute) and f.attr == 'inner' and len(e.args) == 1:
                a, sa = self.vec(f.value)
                b, sb = self.vec(e.args[0])
                if sa != sb:
                    self.err(e, 'inner product across spaces')
                return '(%s %s %s)' % (self.ops(sa)[2], a, b)
        self.err(e, 'scalar expression outside the grammar')

    # --------------------------------------------------------------- vectors
    def opcall(self, f, args):
        """f(args) for an operator-valued f; returns (gallina function text, domain, range) or None"""
        src = ast.unparse(f)
        for pat, spec in self.cfg['operators'].items():
            if src == pat:
                return spec
        # op.derivative(<anything>).adjoint  (linear operators: the point is irrelevant)
        if isinstance(f, ast.Attribute) and f.attr == 'adjoint' and isinstance(f.value, ast.Call) \
                and isinstance(f.value.func, ast.Attribute) and f.value.func.attr == 'derivative':
            key = ast.unparse(f.value.func.value) + '.derivative(.).adjoint'
            if key in self.cfg['operators']:
                self.vec(f.value.args[0])      # the point must at least be a readable vector
                return self.cfg['operators'][key]
        # proximal factories: prox_f(tau)(..)
        if isinstance(f, ast.Call) and ast.unparse(f.func) in self.cfg.get('factories', {}) and len(f.args) == 1:
            g, d, r = self.cfg['factories'][ast.unparse(f.func)]
            return ('(%s %s)' % (g, self.scal(f.args[0])), d, r)
        if isinstance(f, ast.Call) and isinstance(f.func, ast.Subscript) \
                and ast.unparse(f.func.value) in self.cfg.get('factories', {}) \
                and ast.unparse(f.func.slice) == self.cfg.get('index') and len(f.args) == 1:
            g, d, r = self.cfg['factories'][ast.unparse(f.func.value)]
            return ('(%s %s)' % (g, self.scal(f.args[0])), d, r)
        return None

    def vec(self, e):
        """value (gallina expr, space) of a vector expression; creates NO object"""
        if isinstance(e, ast.Name):
            k = self.env.get(e.id)
            if not k or k[0] != 'vec':
                self.err(e, 'not a vector')
            x, sp = self.val[k[1]]
            if x is None:
                self.err(e, 'read of an uninitialised buffer')
            return x, sp
        if isinstance(e, ast.Subscript) and isinstance(e.value, ast.Name) and e.value.id in self.cfg.get('vlists', {}):
            if ast.unparse(e.slice) != self.cfg.get('index'):
                self.err(e, 'vector list indexed by something else than the loop index')
            k = self.env[ast.unparse(e)]
            return self.val[k[1]]
        if isinstance(e, ast.Call):
            f = e.func
            if isinstance(f, ast.Attribute) and f.attr == 'copy' and not e.args:
                return self.vec(f.value)
            spec = self.opcall(f, e.args)
            if spec is not None and len(e.args) == 1 and not e.keywords:
                a, sa = self.vec(e.args[0])
                g, d, r = spec
                if sa != d:
                    self.err(e, 'operator applied to a vector of the wrong space')
                return '(%s %s)' % (g, a), r
        if isinstance(e, ast.BinOp):
            # E + sum(Li.adjoint(vi) for Li, vi in zip(L, v))
            if isinstance(e.op, ast.Add) and ast.unparse(e.right) in self.cfg.get('sums', {}):
                a, sa = self.vec(e.left)
                return '(%s %s)' % (self.cfg['sums'][ast.unparse(e.right)], a), sa
            if isinstance(e.op, (ast.Add, ast.Sub)):
                a, sa = self.vec(e.left)
                b, sb = self.vec(e.right)
                if sa != sb:
                    self.err(e, 'sum across spaces')
                add, scal, _ = self.ops(sa)
                if isinstance(e.op, ast.Add):
                    return '(%s %s %s)' % (add, a, b), sa
                return '(%s %s (%s (- none_) %s))' % (add, a, scal, b), sa
            if isinstance(e.op, ast.Mult) and self.is_scalar(e.left):
                b, sb = self.vec(e.right)
                return '(%s %s %s)' % (self.ops(sb)[1], self.scal(e.left), b), sb
        self.err(e, 'vector expression outside the grammar')

    def target(self, e):
        """object id a name / list entry denotes"""
        key = e.id if isinstance(e, ast.Name) else ast.unparse(e)
        k = self.env.get(key)
        if not k or k[0] != 'vec':
            self.err(e, 'not a vector object')
        return k[1]

    # ------------------------------------------------------------ statements
    def test(self, t):
        """gallina boolean of a scalar test"""
        if isinstance(t, ast.Compare) and len(t.ops) == 1 and self.is_scalar(t.left) and self.is_scalar(t.comparators[0]):
            a, b = self.scal(t.left), self.scal(t.comparators[0])
            o = t.ops[0]
            if isinstance(o, ast.Eq):
                return '(%s =? %s)' % (a, b)
            if isinstance(o, ast.LtE):
                return '(%s <=? %s)' % (a, b)
            if isinstance(o, ast.Lt):
                return '(%s <? %s)' % (a, b)
            if isinstance(o, ast.Gt):
                return '(%s <? %s)' % (b, a)
        self.err(t, 'test outside the grammar')

    def stmts(self, body):
        for s in body:
            self.stmt(s)

    def stmt(self, s):
        cfg = self.cfg
        src = ast.unparse(s)
        if isinstance(s, ast.Expr) and isinstance(s.value, ast.Constant) and isinstance(s.value.value, str):
            return
        if src in cfg.get('skip_stmts', ()):
            return
        if isinstance(s, ast.If):
            t = ast.unparse(s.test)
            if t in cfg.get('skip_tests', ()):
                if not (len(s.body) == 1 and not s.orelse and
                        (isinstance(s.body[0], ast.Raise) or ast.unparse(s.body[0]).startswith('callback('))):
                    self.err(s, 'a skipped test guards something else than a raise / a callback')
                return
            if t in cfg.get('flags', {}):
                self.stmts(s.body if cfg['flags'][t] else s.orelse)
                return
            # `if TEST: return` / `if TEST: raise` that the model maps to "the loop stops"
            if len(s.body) == 1 and not s.orelse and (isinstance(s.body[0], ast.Return) and s.body[0].value is None
                                                       or (isinstance(s.body[0], ast.Raise) and t in cfg.get('raise_stops', ()))):
                self.lines.append('if %s then None else' % self.test(s.test))
                return
            # `if TEST: <in-place statements>; return`: the loop stops; the statements (an undo of the step) are
            # executed on a fork of the state, which is kept for the caller (value of the state names at that exit)
            if len(s.body) >= 2 and not s.orelse and isinstance(s.body[-1], ast.Return) and s.body[-1].value is None:
                import copy
                cond = self.test(s.test)
                fork = copy.deepcopy(self)
                fork.stmts(s.body[:-1])
                if not hasattr(self, 'exits'):
                    self.exits = []
                self.exits.append((cond, fork))
                self.lines.append('if %s then None else' % cond)
                return
            # `if TEST: <one scalar update>`  ->  v := if TEST then new else old
            if len(s.body) == 1 and not s.orelse and isinstance(s.body[0], (ast.AugAssign, ast.Assign)):
                tgt = s.body[0].target if isinstance(s.body[0], ast.AugAssign) else s.body[0].targets[0]
                if isinstance(tgt, ast.Name) and self.env.get(tgt.id, ('?',))[0] == 'scal':
                    old_v = self.env[tgt.id][1]
                    cond = self.test(s.test)
                    keep = list(self.lines)
                    self.stmt(s.body[0])
                    new_v = self.env[tgt.id][1]
                    inner = self.lines[len(keep):]
                    if len(inner) != 1 or not inner[0].startswith('let %s := ' % new_v):
                        self.err(s, 'conditional update is not a single scalar assignment')
                    rhs = inner[0][len('let %s := ' % new_v):-len(' in')]
                    self.lines = keep
                    self.bind_scalar(tgt.id, '(if %s then %s else %s)' % (cond, rhs, old_v))
                    return
            self.err(s, 'conditional outside the grammar (add its test to flags / skip_tests if that is sound)')
        if isinstance(s, ast.Assign) and len(s.targets) == 1:
            tg, v = s.targets[0], s.value
            if isinstance(tg, ast.Tuple) and isinstance(v, ast.Tuple) and len(tg.elts) == len(v.elts) \
                    and all(isinstance(a, ast.Name) for a in tg.elts):
                if all(isinstance(b, ast.Name) and self.env.get(b.id, ('?',))[0] == 'vec' for b in v.elts):
                    new = [self.env[b.id] for b in v.elts]           # x, tmp = tmp, x : rebinding only
                    for a, k in zip(tg.elts, new):
                        self.env[a.id] = k
                    return
                if all(self.is_scalar(b) for b in v.elts):
                    new = [self.scal(b) for b in v.elts]
                    for a, x in zip(tg.elts, new):
                        self.bind_scalar(a.id, x)
                    return
                self.err(s, 'tuple assignment outside the grammar')
            if isinstance(tg, ast.Name):
                if isinstance(v, ast.Name) and self.env.get(v.id, ('?',))[0] == 'vec':
                    self.env[tg.id] = self.env[v.id]                 # ALIAS: two names, one object
                    return
                if ast.unparse(v) in cfg.get('junk', ()):
                    self.env[tg.id] = ('vec', self.new_obj(None, cfg['junk'][ast.unparse(v)]))
                    return
                if self.is_scalar(v):
                    self.bind_scalar(tg.id, self.scal(v))
                    return
                x, sp = self.vec(v)
                self.env[tg.id] = ('vec', self.new_obj(x, sp, tg.id))
                return
        if isinstance(s, ast.AugAssign) and isinstance(s.target, (ast.Name, ast.Subscript)):
            key = s.target.id if isinstance(s.target, ast.Name) else ast.unparse(s.target)
            k = self.env.get(key)
            if k and k[0] == 'scal' and self.is_scalar(s.value) and type(s.op) in (ast.Mult, ast.Div, ast.Add, ast.Sub):
                o = {ast.Add: '+', ast.Sub: '-', ast.Mult: '*', ast.Div: '/'}[type(s.op)]
                self.bind_scalar(key, '(%s %s %s)' % (k[1], o, self.scal(s.value)))
                return
            if k and k[0] == 'vec':
                cur, sp = self.val[k[1]]
                if cur is None:
                    self.err(s, 'read of an uninitialised buffer')
                add, scal, _ = self.ops(sp)
                if isinstance(s.op, (ast.Add, ast.Sub)) and not self.is_scalar(s.value):
                    b, sb = self.vec(s.value)
                    if sb != sp:
                        self.err(s, 'in-place sum across spaces')
                    e = '(%s %s %s)' % (add, cur, b) if isinstance(s.op, ast.Add) \
                        else '(%s %s (%s (- none_) %s))' % (add, cur, scal, b)
                    self.write(s, k[1], e, key.split('[')[0])
                    return
                if isinstance(s.op, ast.Div) and self.is_scalar(s.value):
                    self.write(s, k[1], '(%s (none_ / %s) %s)' % (scal, self.scal(s.value), cur), key.split('[')[0])
                    return
                if isinstance(s.op, ast.Mult) and self.is_scalar(s.value):
                    self.write(s, k[1], '(%s %s %s)' % (scal, self.scal(s.value), cur), key.split('[')[0])
                    return
        if isinstance(s, ast.Expr) and isinstance(s.value, ast.Call):
            c = s.value
            f = c.func
            if ast.unparse(f) == 'callback':
                return
            # x.lincomb(a, u[, b, v])  /  x.assign(y)
            if isinstance(f, ast.Attribute) and f.attr in ('lincomb', 'assign') and not c.keywords:
                oid = self.target(f.value)
                sp = self.val[oid][1]
                add, scal, _ = self.ops(sp)
                if f.attr == 'assign' and len(c.args) == 1:
                    y, sy = self.vec(c.args[0])
                    e = y
                elif len(c.args) == 2:
                    u, su = self.vec(c.args[1])
                    e = '(%s %s %s)' % (scal, self.scal(c.args[0]), u)
                elif len(c.args) == 4:
                    u, su = self.vec(c.args[1])
                    w, sw = self.vec(c.args[3])
                    e = '(%s (%s %s %s) (%s %s %s))' % (add, scal, self.scal(c.args[0]), u, scal, self.scal(c.args[2]), w)
                else:
                    self.err(s, 'lincomb/assign with an unexpected number of arguments')
                self.write(s, oid, e, ast.unparse(f.value).split('[')[0])
                return
            # op(a, out=b)
            spec = self.opcall(f, c.args)
            if spec is not None and len(c.args) == 1 and len(c.keywords) == 1 and c.keywords[0].arg == 'out':
                a, sa = self.vec(c.args[0])
                g, d, r = spec
                oid = self.target(c.keywords[0].value)
                if sa != d or self.val[oid][1] != r:
                    self.err(s, 'operator call between the wrong spaces')
                self.write(s, oid, '(%s %s)' % (g, a), ast.unparse(c.keywords[0].value).split('[')[0])
                return
        self.err(s, 'statement outside the grammar')

    def bind_scalar(self, name, expr):
        v = self.fresh(name)
        self.lines.append('let %s := %s in' % (v, expr))
        self.env[name] = ('scal', v)


# ------------------------------------------------------------------ drivers
def find_fn(repo, path, name):
    tree = ast.parse(open(os.path.join(repo, path)).read())
    fn = [n for n in tree.body if isinstance(n, ast.FunctionDef) and n.name == name]
    if len(fn) != 1:
        raise C.TranslateError('%s: function not found in %s' % (name, path))
    return fn[0]


def split_loop(name, fn):
    body = [s for s in fn.body if not (isinstance(s, ast.Expr) and isinstance(s.value, ast.Constant))]
    loops = [i for i, s in enumerate(body) if isinstance(s, ast.For)]
    if len(loops) != 1:
        raise C.TranslateError('%s: expected exactly one top-level loop' % name)
    i = loops[0]
    tail = body[i + 1:]
    return body[:i], body[i], tail


def param(sx, name, space, state=False):
    sx.nobj += 1
    sx.val[sx.nobj] = (name, space)
    sx.env[name] = ('vec', sx.nobj)
    if not state:
        sx.readonly.add(sx.nobj)


def state_values(sx, node, fields):
    """final values of the state names; state vectors must be distinct objects"""
    out, seen = [], {}
    for fld, nm, kind in fields:
        k = sx.env.get(nm)
        if not k or k[0] != kind:
            sx.err(node, 'state name %s is not bound to a %s at the loop head' % (nm, kind))
        if kind == 'vec':
            if k[1] in seen:
                sx.err(node, 'state vectors %s and %s share one object at the loop head' % (seen[k[1]], nm))
            seen[k[1]] = nm
            x = sx.val[k[1]][0]
            if x is None:
                sx.err(node, 'state vector %s is uninitialised' % nm)
            out.append((fld, x))
        else:
            out.append((fld, k[1]))
    return out


def emit(sx, result, indent='  '):
    return '\n'.join(indent + l for l in sx.lines + [result])


def record(vals):
    return '{| ' + '; '.join('%s := %s' % fv for fv in vals) + ' |}'


CG = dict(file='odl/solvers/iterative/iterative.py', fn='conjugate_gradient',
          operators={'op': ('A', 'V', 'V')}, junk={'op.domain.element()': 'V'},
          skip_tests=['op.domain != op.range', 'x not in op.domain', 'callback is not None'],
          state=[('cg_x', 'x', 'vec'), ('cg_r', 'r', 'vec'), ('cg_p', 'p', 'vec'), ('cg_rr', 'sqnorm_r_old', 'scal')])

CGN = dict(file='odl/solvers/iterative/iterative.py', fn='conjugate_gradient_normal',
           operators={'op': ('A', 'V', 'W'), 'op.derivative(.).adjoint': ('At', 'W', 'V')},
           junk={'op.range.element()': 'W'},
           scalar_consts={'np.finfo(float).eps ** 2': 'eps2', 'np.finfo(float).eps': 'epsm'},
           skip_tests=['x not in op.domain', 'callback is not None'],
           state=[('n_x', 'x', 'vec'), ('n_d', 'd', 'vec'), ('n_p', 'p', 'vec'), ('n_s', 's', 'vec'),
                  ('n_ss', 'sqnorm_s_old', 'scal'), ('n_stop', 'sqnorm_s_stop', 'scal'), ('n_dd', 'sqnorm_d_old', 'scal')])


def gen_krylov(repo, name, cfg, rec, sig_start, sig_step, wrap_start):
    fn = find_fn(repo, cfg['file'], cfg['fn'])
    pre, loop, tail = split_loop(name, fn)
    if tail:
        raise C.TranslateError('%s: statements after the loop' % name)
    if ast.unparse(loop.iter) != 'range(niter)':
        raise C.TranslateError('%s: loop is not `for _ in range(niter)`' % name)
    # ---- preamble
    sx = SX(name, cfg)
    param(sx, 'x', 'V', state=True)
    param(sx, 'rhs', 'V' if name == 'cg' else 'W')
    sx.stmts(pre)
    vals = state_values(sx, loop, cfg['state'])
    start = emit(sx, ('Some %s' if wrap_start else '%s') % record(vals))
    # ---- loop body from an arbitrary state
    sy = SX(name, cfg)
    targs = 'V' if rec == 'cgst' else 'V W'      # explicit type arguments of the record projections
    for fld, nm, kind in cfg['state']:
        if kind == 'vec':
            param(sy, nm, 'V', state=True)
            sy.val[sy.env[nm][1]] = ('(%s %s s)' % (fld, targs), sx.val[sx.env[nm][1]][1])
        else:
            sy.env[nm] = ('scal', '(%s %s s)' % (fld, targs))
    # the buffers of the preamble are still bound (uninitialised as far as the body may assume)
    for nm, k in sx.env.items():
        if nm not in sy.env and k[0] == 'vec' and nm not in ('rhs',):
            sy.env[nm] = ('vec', sy.new_obj(None, sx.val[k[1]][1]))
    sy.stmts(loop.body)
    vals = state_values(sy, loop, cfg['state'])
    step = emit(sy, 'Some %s' % record(vals))
    out = ['Definition gen_%s_start %s :=' % (name, sig_start), start + '.',
           'Definition gen_%s_step %s :=' % (name, sig_step), step + '.']
    # exits that modify the state before returning (undo of a step): what they leave in x
    for k, (cond, fork) in enumerate(getattr(sy, 'exits', []), 1):
        xv = fork.val[fork.env['x'][1]][0]
        out += ['Definition gen_%s_exit%d_x %s : V :=' % (name, k, sig_step.rsplit(') : ', 1)[0] + ')'),
                '\n'.join('  ' + l for l in fork.lines if not l.startswith('if ')) + '\n  ' + xv + '.']
    return out + ['']


PM = dict(file='odl/operator/oputils.py', fn='power_method_opnorm',
          operators={'op': ('A', 'V', 'W'), 'op.adjoint': ('At', 'W', 'V')}, junk={'op.range.element()': 'W'},
          skip_tests=['not np.isfinite(x_norm)', 'callback is not None'],
          raise_stops=['x_norm == 0'],
          skip_stmts=['opnorm, opnorm_old = (calc_opnorm(x_norm), opnorm)', 'opnorm = calc_opnorm(x_norm)'])
# the part of the function before `x_norm = x.norm()` prepares maxiter / ncalls / the start vector: pinned text
PM_SETUP_LAST = 'x = op.domain.element(xstart).copy()'


def gen_power(repo):
    out = []
    fn = find_fn(repo, PM['file'], PM['fn'])
    pre, loop, tail = split_loop('power_method', fn)
    if [ast.unparse(s) for s in tail] != ['return opnorm']:
        raise C.TranslateError('power_method: the function no longer ends with `return opnorm`')
    if ast.unparse(loop.iter) != 'range(ncalls)':
        raise C.TranslateError('power_method: loop is not `for i in range(ncalls)`')
    names = [ast.unparse(s) for s in pre]
    cut = [i for i, s in enumerate(pre) if ast.unparse(s).startswith('x_norm = x.norm()')]
    if len(cut) != 1 or PM_SETUP_LAST not in names[cut[0] - 1]:
        raise C.TranslateError('power_method: cannot locate the normalisation of the start vector')
    calc = [s for s in pre if isinstance(s, ast.FunctionDef)]
    if len(calc) != 1 or ast.unparse(calc[0]).split('\n', 1)[1].strip() != \
            'if use_normal:\n        return np.sqrt(x_norm)\n    else:\n        return x_norm':
        raise C.TranslateError('power_method: calc_opnorm changed')
    norm_part = [s for s in pre[cut[0]:] if not isinstance(s, ast.FunctionDef)]
    for branch, normal, B in (('normal', True, 'fun z => At (A z)'), ('selfadjoint', False, 'A')):
        cfg = dict(PM, flags={'use_normal': normal, 'np.isclose(opnorm, opnorm_old, rtol, atol)': False})
        if not normal:
            cfg['operators'] = {'op': ('A', 'V', 'V')}
            cfg['junk'] = {'op.range.element()': 'V'}
        sx = SX('power_method', cfg)
        param(sx, 'x', 'V', state=True)
        sx.stmts(norm_part)
        x0 = sx.val[sx.env['x'][1]][0]
        start = emit(sx, 'Some %s' % x0)
        sy = SX('power_method', cfg)
        param(sy, 'x', 'V', state=True)
        sy.env['tmp'] = ('vec', sy.new_obj(None, 'W' if normal else 'V'))
        sy.stmts(loop.body)
        xn = sy.env.get('x_norm')
        if not xn or xn[0] != 'scal':
            raise C.TranslateError('power_method: x_norm is not computed in the loop body')
        step = emit(sy, 'Some (%s, %s)' % (xn[1], sy.val[sy.env['x'][1]][0]))
        sigA = '(A : V -> W) (At : W -> V)' if normal else '(A : V -> V)'
        out += ['Definition gen_pm_%s_start (x : V) : option V :=' % branch, start + '.',
                'Definition gen_pm_%s_step %s (x : V) : option (T * V) :=' % (branch, sigA), step + '.', '']
    return out


FB = dict(file='odl/solvers/nonsmooth/forward_backward.py', fn='forward_backward_pd',
          operators={'grad_h': ('gradH', 'V', 'V'), 'L[i]': ('(bA V W b)', 'V', 'W')},
          factories={'prox_f': ('proxF', 'V', 'V'), 'prox_cc_g': ('(bproxGc V W b)', 'W', 'W')},
          sums={'sum((Li.adjoint(vi) for Li, vi in zip(L, v)))': 'sum_adj V W addV bs vs'},
          slists={'sigma': '(bsigma V W b)'}, vlists={'v': 'W'}, index='i',
          scalars=['tau'], skip_tests=['callback is not None'], flags={'l is not None': False})
FB_PREAMBLE = ['m = len(L)', "prox_cc_g = [gi.convex_conj.proximal for gi in g]", 'grad_h = h.gradient',
               'prox_f = f.proximal', "l = kwargs.pop('l', None)", 'v = [Li.range.zero() for Li in L]',
               'y = x.space.zero()']


def gen_fb(repo):
    fn = find_fn(repo, FB['file'], FB['fn'])
    pre, loop, tail = split_loop('forward_backward_pd', fn)
    if tail or ast.unparse(loop.iter) != 'range(niter)':
        raise C.TranslateError('forward_backward_pd: unexpected loop shape')
    for s in pre:
        src = ast.unparse(s)
        if src in FB_PREAMBLE:
            continue
        if isinstance(s, ast.If) and all(isinstance(b, (ast.Raise, ast.If, ast.Assign)) for b in s.body) \
                and ('raise' in src):
            continue                                   # argument validation
        raise C.TranslateError('forward_backward_pd: unexpected preamble statement: %s' % src[:100])
    body = loop.body
    inner = [s for s in body if isinstance(s, ast.For)]
    if len(inner) != 1 or ast.unparse(inner[0].iter) != 'range(m)' or ast.unparse(inner[0].target) != 'i':
        raise C.TranslateError('forward_backward_pd: expected one inner loop `for i in range(m)`')
    k = body.index(inner[0])
    sx = SX('forward_backward_pd', FB)
    param(sx, 'x', 'V', state=True)
    sx.env['y'] = ('vec', sx.new_obj('(scalV nzero x)', 'V', 'y', bind=False))   # x.space.zero(); overwritten before use
    sx.val[sx.env['y'][1]] = (None, 'V')
    sx.stmts(body[:k])
    after = [s for s in body[k + 1:]]
    xv = sx.val[sx.env['x'][1]][0]
    yv = sx.val[sx.env['y'][1]][0]
    if yv is None:
        raise C.TranslateError('forward_backward_pd: y is not computed before the dual loop')
    # per-block body: reads y, v[i]; writes v[i]
    sb = SX('forward_backward_pd', FB)
    param(sb, 'y', 'V')
    sb.nobj += 1
    sb.val[sb.nobj] = ('v', 'W')
    sb.env['v[i]'] = ('vec', sb.nobj)
    sb.stmts(inner[0].body)
    blk = emit(sb, sb.val[sb.env['v[i]'][1]][0])
    sx.stmts(after)                                    # only the callback may follow
    if sx.val[sx.env['x'][1]][0] != xv:
        raise C.TranslateError('forward_backward_pd: x changes after the dual loop')
    step = emit(sx, '(%s, map2 (fun b v => gen_fb_block b %s v) bs vs)' % (xv, yv))
    return ['Definition gen_fb_block (b : @blk T V W) (y : V) (v : W) : W :=', blk + '.',
            'Definition gen_fb_step (proxF : T -> V -> V) (gradH : V -> V) (bs : list (@blk T V W)) (tau : T)',
            '    (s : V * list W) : V * list W :=', "  let '(x, vs) := s in", step + '.', '']


BT = dict(file='odl/solvers/util/steplen.py',
          sfuncs={'self.function': 'f'},
          scalar_consts={'self.tau': 'tau', 'self.discount': 'discount', 'self.alpha': 'alpha_st'},
          scalars=['fx', 'dir_derivative'], skip_tests=['np.isnan(fval)'])
# the control skeleton of BacktrackingLineSearch.__call__ is pinned statement by statement; the FORMULAS inside it
# (start value and sign of alpha, trial point, acceptance test, shrinking, final assertion) are regenerated
BT_SKELETON_PRE = ['fx = self.function(x)', None,           # None: the dir_derivative=None preparation (pinned below)
                   'if dir_derivative == 0: raise', 'ALPHA0', 'if dir_derivative > 0: ALPHA_SIGN',
                   'if not np.isfinite(fx): raise', 'point = x.copy()', 'num_iter = 0', 'WHILE',
                   'assert fval < fx', 'self.total_num_iter += num_iter', 'self.alpha = np.abs(alpha)', 'return alpha']
BT_DD_PREP = ("if dir_derivative is None:\n    try:\n        gradient = self.function.gradient\n    except AttributeError:\n"
              "        raise ValueError('`dir_derivative` only optional if `function.gradient exists')\n    else:\n"
              "        dir_derivative = gradient(x).inner(direction)\nelse:\n    dir_derivative = float(dir_derivative)")


def gen_backtracking(repo):
    tree = ast.parse(open(os.path.join(repo, BT['file'])).read())
    cls = [n for n in tree.body if isinstance(n, ast.ClassDef) and n.name == 'BacktrackingLineSearch']
    if len(cls) != 1:
        raise C.TranslateError('BacktrackingLineSearch not found')
    call = [n for n in cls[0].body if isinstance(n, ast.FunctionDef) and n.name == '__call__']
    if len(call) != 1:
        raise C.TranslateError('BacktrackingLineSearch.__call__ not found')
    body = [s for s in call[0].body if not (isinstance(s, ast.Expr) and isinstance(s.value, ast.Constant))]
    if len(body) != len(BT_SKELETON_PRE):
        raise C.TranslateError('BacktrackingLineSearch.__call__: %d statements, expected %d' % (len(body), len(BT_SKELETON_PRE)))

    def head(st):
        src = ast.unparse(st)
        if isinstance(st, ast.If) and len(st.body) == 1 and isinstance(st.body[0], ast.Raise) and not st.orelse:
            return 'if %s: raise' % ast.unparse(st.test)
        return src
    for st, want in zip(body, BT_SKELETON_PRE):
        if want in ('ALPHA0', 'WHILE') or (want or '').endswith('ALPHA_SIGN'):
            continue
        if want is None:
            if ast.unparse(st) != BT_DD_PREP:
                raise C.TranslateError('BacktrackingLineSearch.__call__: the dir_derivative preparation changed')
            continue
        if head(st) != want:
            raise C.TranslateError('BacktrackingLineSearch.__call__: expected `%s`, found `%s`' % (want, head(st)[:80]))
    a0, asign, loop = body[3], body[4], body[8]
    # ---- start value of alpha
    if not (isinstance(a0, ast.If) and ast.unparse(a0.test) == 'not self.estimate_step' and len(a0.body) == 1
            and len(a0.orelse) == 1):
        raise C.TranslateError('BacktrackingLineSearch.__call__: start value of alpha has an unexpected shape')
    starts = []
    for branch in (a0.orelse, a0.body):          # estimate_step = True, False
        sx = SX('backtracking', BT)
        sx.stmts(branch)
        if not (isinstance(asign, ast.If) and ast.unparse(asign.test) == 'dir_derivative > 0'):
            raise C.TranslateError('BacktrackingLineSearch.__call__: sign rule of alpha has an unexpected shape')
        sx.stmt(asign)
        starts.append(emit(sx, sx.env['alpha'][1], '    '))
    # ---- the loop
    if not (isinstance(loop, ast.While) and ast.unparse(loop.test) == 'True' and not loop.orelse):
        raise C.TranslateError('BacktrackingLineSearch.__call__: expected `while True:`')
    lb = loop.body
    shape = [head(lb[0])] + [type(st).__name__ for st in lb[1:]]
    if shape != ['if num_iter > self.max_num_iter: raise', 'Expr', 'Assign', 'If', 'Assign', 'If', 'AugAssign', 'AugAssign'] \
            or ast.unparse(lb[5].body[0]) != 'break' or lb[5].orelse or ast.unparse(lb[6]) != 'num_iter += 1' \
            or ast.unparse(lb[3].test) != 'np.isnan(fval)':
        raise C.TranslateError('BacktrackingLineSearch.__call__: loop body has an unexpected shape: %s' % shape)
    sx = SX('backtracking', dict(BT, scalars=['fx', 'dir_derivative', 'alpha']))
    param(sx, 'x', 'V')
    param(sx, 'direction', 'V')
    sx.env['point'] = ('vec', sx.new_obj(None, 'V'))
    sx.stmt(lb[1])                                   # point.lincomb(1, x, alpha, direction)
    point = emit(sx, sx.val[sx.env['point'][1]][0])
    sy = SX('backtracking', dict(BT, scalars=['fx', 'dir_derivative', 'alpha', 'fval']))
    sy.stmt(lb[4])                                   # expected_decrease = ...
    accept = emit(sy, sy.test(lb[5].test))
    if ast.unparse(lb[2]) != 'fval = self.function(point)':
        raise C.TranslateError('BacktrackingLineSearch.__call__: fval is not self.function(point)')
    sz = SX('backtracking', dict(BT, scalars=['alpha']))
    sz.stmt(lb[7])                                   # alpha *= self.tau
    nxt = emit(sz, sz.env['alpha'][1])
    sa = SX('backtracking', dict(BT, scalars=['fx', 'fval']))
    asrt = sa.test(body[9].test)
    sd = SX('backtracking', dict(BT, scalars=['dir_derivative']))
    zero = sd.test(body[2].test)
    return ['Definition gen_bt_zero_derivative (dir_derivative : T) : bool := %s.' % zero,
            'Definition gen_bt_alpha0 (estimate : bool) (alpha_st dir_derivative : T) : T :=',
            '  if estimate then\n%s\n  else\n%s.' % (starts[0], starts[1]),
            'Definition gen_bt_point (x direction : V) (alpha : T) : V :=', point + '.',
            'Definition gen_bt_accept (discount fx dir_derivative alpha fval : T) : bool :=', accept + '.',
            'Definition gen_bt_next (tau alpha : T) : T :=', nxt + '.',
            'Definition gen_bt_assert (fx fval : T) : bool := %s.' % asrt, '']


DR = dict(file='odl/solvers/nonsmooth/douglas_rachford.py', fn='douglas_rachford_pd',
          operators={'L[i]': ('(bA V W b)', 'V', 'W')},
          factories={'f.proximal': ('proxF', 'V', 'V'), 'prox_cc_g': ('(bproxGc V W b)', 'W', 'W')},
          slists={'sigma': '(bsigma V W b)'}, vlists={'v': 'W', 'p2': 'W', 'w2': 'W'}, index='i',
          scalars=['tau', 'lam_k'], skip_tests=['callback is not None'], flags={'l is not None': False})
DR_SUM1 = ['L[0].adjoint(v[0], out=z1)', 'for Li, vi in zip(L[1:], v[1:]):\n    Li.adjoint(vi, out=p1)\n    z1 += p1']
DR_SUM2 = ['L[0].adjoint(w2[0], out=p1)', 'for Li, w2i in zip(L[1:], w2[1:]):\n    Li.adjoint(w2i, out=z1)\n    p1 += z1']


def gen_dr(repo):
    """douglas_rachford_pd, branch len(L) > 0, l = None.  The two accumulation idioms
         L[0].adjoint(u[0], out=A); for Li, ui in zip(L[1:], u[1:]): Li.adjoint(ui, out=B); A += B
       are recognised as units and mapped to sum_adj0 (left fold of + over the blocks); the loops over i become
       per-block functions; the final-iteration branch (x.assign(p1); return) and the empty-L branches are pinned text."""
    fn = find_fn(repo, DR['file'], DR['fn'])
    pre, loop, tail = split_loop('douglas_rachford_pd', fn)
    if tail or ast.unparse(loop.iter) != 'range(niter)' or ast.unparse(loop.target) != 'k':
        raise C.TranslateError('douglas_rachford_pd: unexpected loop shape')
    b = loop.body
    U = ast.unparse
    want = {0: 'lam_k = lam(k)', 6: 'if k == niter - 1:\n    x.assign(p1)\n    return'}
    if len(b) != 13 or any(U(b[i]) != t for i, t in want.items()):
        raise C.TranslateError('douglas_rachford_pd: loop body has an unexpected shape')
    for i, idiom, els in ((1, DR_SUM1, 'z1.assign(x)'), (8, DR_SUM2, 'p1.set_zero()')):
        st = b[i]
        if not (isinstance(st, ast.If) and U(st.test) == 'len(L) > 0' and [U(t) for t in st.body[:2]] == idiom
                and [U(t) for t in st.orelse] == [els]):
            raise C.TranslateError('douglas_rachford_pd: accumulation of the adjoints has an unexpected shape (statement %d)' % i)
    for i in (7, 12):
        if not (isinstance(b[i], ast.For) and U(b[i].iter) == 'range(m)' and U(b[i].target) == 'i'):
            raise C.TranslateError('douglas_rachford_pd: expected `for i in range(m)`')

    def fresh_main():
        sx = SX('douglas_rachford_pd', DR)
        param(sx, 'x', 'V', state=True)
        for nm in ('z1', 'p1', 'w1'):
            sx.env[nm] = ('vec', sx.new_obj(None, 'V'))
        return sx
    # ---- first half: p1 (what the callback sees and the final iteration returns)
    sx = fresh_main()
    sx.write(b[1], sx.env['z1'][1], '(sum_adj0 V W addV scalV bs vs x)', 'z1')
    sx.val[sx.env['p1'][1]] = (None, 'V')
    sx.stmts(b[1].body[2:])
    sx.stmt(b[2])
    p1_only = emit(sx, sx.val[sx.env['p1'][1]][0])
    sx.stmts(b[3:6])
    # ---- per-block: p2[i], w2[i]
    sb = SX('douglas_rachford_pd', DR)
    param(sb, 'w1', 'V')
    sb.nobj += 1
    sb.val[sb.nobj] = ('v', 'W')
    sb.env['v[i]'] = ('vec', sb.nobj)
    sb.readonly.add(sb.nobj)
    sb.env['p2[i]'] = ('vec', sb.new_obj(None, 'W'))
    sb.env['w2[i]'] = ('vec', sb.new_obj(None, 'W'))
    lb = b[7].body
    if len(lb) != 4:
        raise C.TranslateError('douglas_rachford_pd: first block loop has %d statements' % len(lb))
    sb.stmts(lb[:3])
    blk_p2 = emit(sb, sb.val[sb.env['p2[i]'][1]][0])
    sc = SX('douglas_rachford_pd', DR)
    for nm, pn in (('p2[i]', 'p'), ('v[i]', 'v')):
        sc.nobj += 1
        sc.val[sc.nobj] = (pn, 'W')
        sc.env[nm] = ('vec', sc.nobj)
        sc.readonly.add(sc.nobj)
    sc.env['w2[i]'] = ('vec', sc.new_obj(None, 'W'))
    sc.stmt(lb[3])
    blk_w2 = emit(sc, sc.val[sc.env['w2[i]'][1]][0])
    sx.lines.append('let p2 := map2 (fun b v => gen_dr_blk_p2 b %s v) bs vs in' % sx.val[sx.env['w1'][1]][0])
    sx.lines.append('let w2 := map2 (fun p v => gen_dr_blk_w2 p v) p2 vs in')
    # ---- second accumulation and the primal updates
    sx.write(b[8], sx.env['p1'][1], '(sum_adj0 V W addV scalV bs w2 x)', 'p1')
    sx.val[sx.env['z1'][1]] = (None, 'V')
    sx.stmts(b[9:12])
    # ---- per-block: z2, then the two updates of v[i]
    lc = b[12].body
    shape = [U(lc[0]), U(lc[1]), type(lc[2]).__name__, U(lc[3].test) if isinstance(lc[3], ast.If) else '?',
             type(lc[4]).__name__, type(lc[5]).__name__] if len(lc) == 6 else []
    if shape != ['z2i = z2[L[i].range]', 'L[i](p1, out=z2i)', 'Expr', 'l is not None', 'Expr', 'Expr']:
        raise C.TranslateError('douglas_rachford_pd: second block loop has an unexpected shape: %s' % shape)
    sd = SX('douglas_rachford_pd', DR)
    param(sd, 'p1', 'V')
    sd.nobj += 1
    sd.val[sd.nobj] = ('w', 'W')
    sd.env['w2[i]'] = ('vec', sd.nobj)
    sd.readonly.add(sd.nobj)
    sd.env['z2i'] = ('vec', sd.new_obj(None, 'W'))      # z2[L[i].range]: a buffer, overwritten before it is read
    sd.stmts(lc[1:4])
    blk_z2 = emit(sd, sd.val[sd.env['z2i'][1]][0])
    outs = []
    for st, (a, bb) in ((lc[4], ('v', 'z')), (lc[5], ('vz', 'p'))):
        se = SX('douglas_rachford_pd', DR)
        se.nobj += 1
        se.val[se.nobj] = (a, 'W')
        se.env['v[i]'] = ('vec', se.nobj)
        other = 'z2i' if bb == 'z' else 'p2[i]'
        se.nobj += 1
        se.val[se.nobj] = (bb, 'W')
        se.env[other] = ('vec', se.nobj)
        se.readonly.add(se.nobj)
        se.stmt(st)
        outs.append(emit(se, se.val[se.env['v[i]'][1]][0]))
    q1 = sx.val[sx.env['p1'][1]][0]
    xf = sx.val[sx.env['x'][1]][0]
    step = emit(sx, '(%s, map2 (fun vz p => gen_dr_blk_v2 lam_k vz p)\n         (map2 (fun v z => gen_dr_blk_v1 lam_k v z) vs (map2 (fun b w => gen_dr_blk_z2 b %s w) bs w2)) p2)' % (xf, q1))
    return ['Definition gen_dr_blk_p2 (b : @blk T V W) (w1 : V) (v : W) : W :=', blk_p2 + '.',
            'Definition gen_dr_blk_w2 (p v : W) : W :=', blk_w2 + '.',
            'Definition gen_dr_blk_z2 (b : @blk T V W) (p1 : V) (w : W) : W :=', blk_z2 + '.',
            'Definition gen_dr_blk_v1 (lam_k : T) (v z : W) : W :=', outs[0] + '.',
            'Definition gen_dr_blk_v2 (lam_k : T) (vz p : W) : W :=', outs[1] + '.',
            'Definition gen_dr_p1 (proxF : T -> V -> V) (bs : list (@blk T V W)) (tau : T) (s : V * list W) : V :=',
            "  let '(x, vs) := s in", p1_only + '.',
            'Definition gen_dr_step (proxF : T -> V -> V) (bs : list (@blk T V W)) (tau lam_k : T) (s : V * list W)',
            '    : V * list W :=', "  let '(x, vs) := s in", step + '.', '']


def translate(repo=None):
    repo = repo or C.REPO
    out = ['(* GENERATED by translate/solvers_c12.py from the solver sources -- do not edit. *)',
           'From Coq Require Import ZArith QArith List Bool.',
           'From Verif Require Import Base.Num Base.Vec C12.Model.',
           'Import ListNotations.', 'Local Open Scope num_scope.', '',
           'Section Gen.', 'Context {T : Type} `{Num T}.', 'Variables V W : Type.',
           'Variable addV : V -> V -> V.', 'Variable scalV : T -> V -> V.', 'Variable ipV : V -> V -> T.',
           'Variable addW : W -> W -> W.', 'Variable scalW : T -> W -> W.', 'Variable ipW : W -> W -> T.',
           'Variable rt : T -> T.', '']
    out += gen_krylov(repo, 'cg', CG, 'cgst', '(A : V -> V) (rhs x : V) : option (@cgst T V)',
                      '(A : V -> V) (s : @cgst T V) : option (@cgst T V)', True)
    out += gen_krylov(repo, 'cgn', CGN, 'cgnst', '(A : V -> W) (At : W -> V) (eps2 : T) (rhs : W) (x : V) : @cgnst T V W',
                      '(A : V -> W) (At : W -> V) (epsm : T) (s : @cgnst T V W) : option (@cgnst T V W)', False)
    out += gen_power(repo)
    out += gen_fb(repo)
    out += gen_backtracking(repo)
    out += gen_dr(repo)
    out.append('End Gen.')
    return '\n'.join(out) + '\n'


if __name__ == '__main__':
    print(translate())
