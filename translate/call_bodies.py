"""Fail-closed translator:  `_call` bodies of operator classes  ->  coq/Gen/C03Bodies.v

For every class listed in CLASSES the method `_call` is parsed with `ast` and
re-emitted as a term of C03/Syntax.v (`cls` = dispatch kind + out-of-place body +
in-place body).  The dispatch kind is derived from the signature exactly as
odl/operator/operator.py:_dispatch_call_args does.  Also emitted: the numeric
thresholds of odl/space/npy_tensors.py and, for EVERY class in the anchored
files that defines `_call`, its dispatch kind (table `call_kinds`).

Grammar accepted (anything else raises TranslateError):
  body   := stmt*
  stmt   := `if out is None: body else: body`             (split into the two modes)
          | `if COND: body [elif COND: body]* [else: body]`  COND resolved by the variant's `assume` table
          | `return [EXPR]`
          | NAME = EXPR            | NAME = self.KID(EXPR)        (scalar result when KID is a functional)
          | NAME = self.OWN if self.OWN is not None else EXPR
          | `if self.OWN is not None: NAME = self.OWN else: NAME = EXPR`
          | self.KID(REF, out=REF)
          | REF += REF | REF *= REF | REF *= SCALAR
          | REF.lincomb(SCALAR, REF[, SCALAR, REF]) | REF.multiply(REF, out=REF)
          | REF.assign(EXPR) | REF.set_zero()
          | `raise ...`   (only in branches removed by `assume`)
  EXPR   := REF | self.KID(EXPR) | EXPR + EXPR | EXPR * EXPR | SCALAR * EXPR | EXPR * SCALAR
          | self.(domain|range|KID.domain|KID.range).(element()|zero()) | EXPR.copy()
          | self.range.element(copy(EXPR))
  REF    := x | out | local name | self.VEC
  SCALAR := number | self.PAR | scalar local
"""
import ast
import re
import os
from fractions import Fraction

from harness.common import TranslateError, REPO

OPERATOR_PY = 'odl/operator/operator.py'
DEFAULT_OPS_PY = 'odl/operator/default_ops.py'
NPY_TENSORS_PY = 'odl/space/npy_tensors.py'
PROXIMAL_PY = 'odl/solvers/nonsmooth/proximal_operators.py'
ANCHORED = ['odl/operator/operator.py', 'odl/operator/default_ops.py', 'odl/operator/tensor_ops.py',
            'odl/operator/pspace_ops.py', 'odl/discr/diff_ops.py', 'odl/discr/discr_ops.py',
            'odl/solvers/functional/default_functionals.py', 'odl/solvers/functional/functional.py']

# name of the Coq definition -> (file, class, kids, functional kids, vecs, pars, owns, assume)
CLASSES = [
    ('OperatorSum', OPERATOR_PY, 'OperatorSum',
     dict(kids=['left', 'right'], owns=['__tmp_ran', '__tmp_dom'])),
    ('OperatorVectorSum', OPERATOR_PY, 'OperatorVectorSum',
     dict(kids=['operator'], vecs=['vector'])),
    ('OperatorComp', OPERATOR_PY, 'OperatorComp',
     dict(kids=['left', 'right'], owns=['__tmp'])),
    ('OperatorPointwiseProduct', OPERATOR_PY, 'OperatorPointwiseProduct',
     dict(kids=['left', 'right'])),
    ('OperatorLeftScalarMult', OPERATOR_PY, 'OperatorLeftScalarMult',
     dict(kids=['operator'], pars=['scalar'])),
    ('OperatorRightScalarMult', OPERATOR_PY, 'OperatorRightScalarMult',
     dict(kids=['operator'], pars=['scalar'], owns=['__tmp'])),
    ('FunctionalLeftVectorMult', OPERATOR_PY, 'FunctionalLeftVectorMult',
     dict(kids=['functional'], fkids=['functional'], vecs=['vector'])),
    ('OperatorLeftVectorMult', OPERATOR_PY, 'OperatorLeftVectorMult',
     dict(kids=['operator'], vecs=['vector'])),
    ('OperatorRightVectorMult', OPERATOR_PY, 'OperatorRightVectorMult',
     dict(kids=['operator'], vecs=['vector'])),
    ('ScalingOperator', DEFAULT_OPS_PY, 'ScalingOperator', dict(pars=['scalar'])),
    ('ZeroOperator_same', DEFAULT_OPS_PY, 'ZeroOperator',
     dict(assume={'self.domain == self.range': True})),
    ('ZeroOperator_diff', DEFAULT_OPS_PY, 'ZeroOperator',
     dict(assume={'self.domain == self.range': False})),
    ('ConstantOperator', DEFAULT_OPS_PY, 'ConstantOperator', dict(vecs=['constant'])),
    ('MultiplyOperator', DEFAULT_OPS_PY, 'MultiplyOperator',
     dict(vecs=['multiplicand'],
          assume={'not self.__range_is_field': True, 'self.__domain_is_field': False})),
    # proximal_l2(space, lam, g=None)(sigma) in the branch sigma*lam >= ||x||*(1+eps)  (step >= 1):
    # the scalar prelude computing `step` is skipped, the branch is fixed by `assume`
    # proximal factories (classes defined inside functions); closure scalars lam / lower / upper become
    # parameters after self.sigma, the closure element g becomes an owned element
    ('ProximalL1', PROXIMAL_PY, 'proximal_l1.ProximalL1',
     dict(pars=['sigma'], cpars=['lam'], assume={'x is out': False, 'g is not None': False})),
    ('ProximalL1_g', PROXIMAL_PY, 'proximal_l1.ProximalL1',
     dict(pars=['sigma'], cpars=['lam'], cvecs=['g'], assume={'x is out': False, 'g is not None': True})),
    ('ProximalConvexConjL1', PROXIMAL_PY, 'proximal_convex_conj_l1.ProximalConvexConjL1',
     dict(pars=['sigma'], cpars=['lam'], assume={'x is out': False, 'g is not None': False})),
    ('ProximalConvexConjL1_g', PROXIMAL_PY, 'proximal_convex_conj_l1.ProximalConvexConjL1',
     dict(pars=['sigma'], cpars=['lam'], cvecs=['g'],
          assume={'x is out': False, 'g is not None': True, 'np.isscalar(self.sigma)': True})),
    ('ProximalL2Squared', PROXIMAL_PY, 'proximal_l2_squared.ProximalL2Squared',
     dict(pars=['sigma'], cpars=['lam'], assume={'np.isscalar(sig)': True, 'g is None': True})),
    ('ProximalL2Squared_g', PROXIMAL_PY, 'proximal_l2_squared.ProximalL2Squared',
     dict(pars=['sigma'], cpars=['lam'], cvecs=['g'], assume={'np.isscalar(sig)': True, 'g is None': False})),
    ('ProximalConvexConjL2Squared', PROXIMAL_PY, 'proximal_convex_conj_l2_squared.ProximalConvexConjL2Squared',
     dict(pars=['sigma'], cpars=['lam'], assume={'np.isscalar(sig)': True, 'g is None': True})),
    ('ProximalConvexConjL2Squared_g', PROXIMAL_PY, 'proximal_convex_conj_l2_squared.ProximalConvexConjL2Squared',
     dict(pars=['sigma'], cpars=['lam'], cvecs=['g'], assume={'np.isscalar(sig)': True, 'g is None': False})),
    ('ProxBox_both', PROXIMAL_PY, 'proximal_box_constraint.ProxOpBoxConstraint',
     dict(cpars=['lower', 'upper'],
          assume={'lower is not None and upper is None': False, 'lower is None and upper is not None': False,
                  'lower is not None and upper is not None': True})),
    ('ProxBox_lower', PROXIMAL_PY, 'proximal_box_constraint.ProxOpBoxConstraint',
     dict(cpars=['lower', 'upper'], assume={'lower is not None and upper is None': True})),
    ('ProxBox_upper', PROXIMAL_PY, 'proximal_box_constraint.ProxOpBoxConstraint',
     dict(cpars=['lower', 'upper'],
          assume={'lower is not None and upper is None': False, 'lower is None and upper is not None': True})),
    ('ProxBox_none', PROXIMAL_PY, 'proximal_box_constraint.ProxOpBoxConstraint',
     dict(cpars=['lower', 'upper'],
          assume={'lower is not None and upper is None': False, 'lower is None and upper is not None': False,
                  'lower is not None and upper is not None': False})),
    ('ProximalL2_bigstep', PROXIMAL_PY, 'proximal_l2.ProximalL2',
     dict(assume={'g is None': True, 'step < 1.0': False},
          skip_scalar=['dtype', 'eps', 'x_norm', 'step'])),
]


class Ctx(object):
    def __init__(self, src, cfg):
        self.src = src
        self.kids = cfg.get('kids', [])
        self.fkids = cfg.get('fkids', [])
        self.vecs = cfg.get('vecs', [])
        self.pars = cfg.get('pars', [])
        self.owns = cfg.get('owns', [])
        self.assume = cfg.get('assume', {})
        self.skip_scalar = cfg.get('skip_scalar', [])
        self.cpars = cfg.get('cpars', [])     # scalars captured from the factory's closure (lam, lower ...)
        self.cvecs = cfg.get('cvecs', [])     # elements captured from the closure (g)
        self.salias = {}                      # scalar local = scalar expression (sig = self.sigma)
        self.locals = {}      # element-valued local name -> tmp index
        self.slocals = {}     # scalar-valued local name -> index

    def fail(self, node, why):
        raise TranslateError('%s:%s: %s: %s' % (self.src, getattr(node, 'lineno', '?'), why,
                                                ast.unparse(node)[:160] if node is not None else ''))


def qlit(v):
    fr = Fraction(v)
    n, d = fr.numerator, fr.denominator
    return '(%d # %d)' % (n, d) if n >= 0 else '((%d) # %d)' % (n, d)


def self_attr(node):
    """self.NAME -> NAME"""
    if (isinstance(node, ast.Attribute) and isinstance(node.value, ast.Name) and node.value.id == 'self'):
        return node.attr
    return None


def is_out_is_none(t):
    return (isinstance(t, ast.Compare) and isinstance(t.left, ast.Name) and t.left.id == 'out'
            and len(t.ops) == 1 and isinstance(t.ops[0], ast.Is)
            and isinstance(t.comparators[0], ast.Constant) and t.comparators[0].value is None)


def own_not_none(t):
    """self.OWN is not None -> OWN"""
    if (isinstance(t, ast.Compare) and len(t.ops) == 1 and isinstance(t.ops[0], ast.IsNot)
            and isinstance(t.comparators[0], ast.Constant) and t.comparators[0].value is None):
        return self_attr(t.left)
    return None


def mentions_out(node):
    return any(isinstance(n, ast.Name) and n.id == 'out' for n in ast.walk(node))


def skippable(cx, s):
    """Scalar prelude: NAME = <expression without out> for the listed scalar names, or an `if`
    made only of such assignments (its test must not mention out either)."""
    if (isinstance(s, ast.Assign) and len(s.targets) == 1 and isinstance(s.targets[0], ast.Name)
            and s.targets[0].id in cx.skip_scalar and not mentions_out(s.value)):
        return True
    if isinstance(s, ast.If) and not mentions_out(s.test) and s.body:
        return all(skippable(cx, t) for t in s.body + s.orelse)
    return False


def split_modes(cx, stmts):
    """Resolve `if out is None` and assumed conditions; return (oop_stmts, ip_stmts) as flat lists."""
    oop, ip = [], []
    for s in stmts:
        if cx.skip_scalar and skippable(cx, s) and not (isinstance(s, ast.If) and ast.unparse(s.test) in cx.assume):
            continue
        if isinstance(s, ast.If) and is_out_is_none(s.test):
            a_o, a_i = split_modes(cx, s.body)
            b_o, b_i = split_modes(cx, s.orelse)
            # inside the `out is None` branch only the out-of-place reading exists, and vice versa
            oop += a_o
            ip += b_i
        elif isinstance(s, ast.If) and own_not_none(s.test) in cx.owns and own_not_none(s.test):
            oop.append(s)
            ip.append(s)
        elif isinstance(s, ast.If):
            txt = ast.unparse(s.test)
            if txt not in cx.assume:
                cx.fail(s.test, 'condition not resolved by the variant table')
            taken = s.body if cx.assume[txt] else s.orelse
            t_o, t_i = split_modes(cx, taken)
            oop += t_o
            ip += t_i
        else:
            oop.append(s)
            ip.append(s)
    return oop, ip


def space_sel(cx, node):
    """self.domain / self.range / self.KID.domain / self.KID.range"""
    if isinstance(node, ast.Attribute) and node.attr in ('domain', 'range'):
        which = node.attr
        if isinstance(node.value, ast.Name) and node.value.id == 'self':
            return 'SpDom' if which == 'domain' else 'SpRan'
        kid = self_attr(node.value)
        if kid in cx.kids:
            return '(%s %d)' % ('SpKidDom' if which == 'domain' else 'SpKidRan', cx.kids.index(kid))
    cx.fail(node, 'not a space selector')


def ref(cx, node, bind=False):
    if isinstance(node, ast.Name):
        if node.id == 'x':
            return 'RX'
        if node.id == 'out':
            return 'ROut'
        if node.id in cx.locals:
            return '(RTmp %d)' % cx.locals[node.id]
        if node.id in cx.cvecs and not bind:
            return '(RVec %d)' % (len(cx.vecs) + cx.cvecs.index(node.id))
        if bind:
            cx.locals[node.id] = len(cx.locals)
            return '(RTmp %d)' % cx.locals[node.id]
        cx.fail(node, 'unknown name')
    a = self_attr(node)
    if a in cx.vecs:
        return '(RVec %d)' % cx.vecs.index(a)
    cx.fail(node, 'not a reference to an element')


def is_scalar(cx, node):
    if isinstance(node, ast.Constant) and isinstance(node.value, (int, float)) and not isinstance(node.value, bool):
        return True
    if self_attr(node) in cx.pars:
        return True
    if isinstance(node, ast.Name) and (node.id in cx.slocals or node.id in cx.cpars or node.id in cx.salias):
        return True
    if isinstance(node, ast.BinOp) and isinstance(node.op, (ast.Add, ast.Sub, ast.Mult, ast.Div)):
        return is_scalar(cx, node.left) and is_scalar(cx, node.right)
    if isinstance(node, ast.UnaryOp) and isinstance(node.op, ast.USub):
        return is_scalar(cx, node.operand)
    return False


def scal(cx, node):
    if isinstance(node, ast.Constant) and isinstance(node.value, (int, float)) and not isinstance(node.value, bool):
        return '(SLit %s)' % qlit(node.value)
    a = self_attr(node)
    if a in cx.pars:
        return '(SPar %d)' % cx.pars.index(a)
    if isinstance(node, ast.Name) and node.id in cx.slocals:
        return '(SVar %d)' % cx.slocals[node.id]
    if isinstance(node, ast.Name) and node.id in cx.salias:
        return cx.salias[node.id]
    if isinstance(node, ast.Name) and node.id in cx.cpars:
        return '(SPar %d)' % (len(cx.pars) + cx.cpars.index(node.id))
    if isinstance(node, ast.BinOp) and isinstance(node.op, (ast.Add, ast.Sub, ast.Mult, ast.Div)):
        c = {ast.Add: 'SAdd', ast.Sub: 'SSub', ast.Mult: 'SMul', ast.Div: 'SDiv'}[type(node.op)]
        return '(%s %s %s)' % (c, scal(cx, node.left), scal(cx, node.right))
    if isinstance(node, ast.UnaryOp) and isinstance(node.op, ast.USub):
        if isinstance(node.operand, ast.Constant):
            return '(SLit %s)' % qlit(-node.operand.value)
        return '(SNeg %s)' % scal(cx, node.operand)
    cx.fail(node, 'not a scalar')


def kid_call(cx, node):
    """self.KID(args...) -> (kid index, call node) or None"""
    if isinstance(node, ast.Call):
        k = self_attr(node.func)
        if k in cx.kids:
            return cx.kids.index(k), node
    return None


def expr(cx, node):
    kc = kid_call(cx, node)
    if kc is not None:
        k, call = kc
        if len(call.args) != 1 or call.keywords:
            cx.fail(node, 'out-of-place kid call must have exactly one argument')
        return '(XCall %d %s)' % (k, expr(cx, call.args[0]))
    if isinstance(node, ast.BinOp) and isinstance(node.op, ast.Add):
        return '(XAdd %s %s)' % (expr(cx, node.left), expr(cx, node.right))
    if isinstance(node, ast.BinOp) and isinstance(node.op, ast.Sub):
        return '(XSub %s %s)' % (expr(cx, node.left), expr(cx, node.right))
    if isinstance(node, ast.BinOp) and isinstance(node.op, ast.Mult):
        if is_scalar(cx, node.left):
            return '(XScal %s %s)' % (scal(cx, node.left), expr(cx, node.right))
        if is_scalar(cx, node.right):
            return '(XScal %s %s)' % (scal(cx, node.right), expr(cx, node.left))
        return '(XMul %s %s)' % (expr(cx, node.left), expr(cx, node.right))
    if isinstance(node, ast.Call) and isinstance(node.func, ast.Attribute):
        meth = node.func.attr
        if meth == 'element' and not node.args and not node.keywords:
            return '(XNew %s)' % space_sel(cx, node.func.value)
        if meth == 'zero' and not node.args and not node.keywords:
            return '(XZero %s)' % space_sel(cx, node.func.value)
        if meth == 'copy' and not node.args and not node.keywords:
            return '(XCopy %s)' % expr(cx, node.func.value)
        if (meth == 'absolute' and not node.args and not node.keywords and isinstance(node.func.value, ast.Attribute)
                and node.func.value.attr == 'ufuncs'):
            return '(XAbs %s)' % expr(cx, node.func.value.value)
        if (meth == 'element' and len(node.args) == 1 and not node.keywords
                and isinstance(node.args[0], ast.Call) and isinstance(node.args[0].func, ast.Name)
                and node.args[0].func.id == 'copy' and len(node.args[0].args) == 1
                and space_sel(cx, node.func.value) == 'SpRan'):
            return '(XCopy %s)' % expr(cx, node.args[0].args[0])
    if isinstance(node, ast.IfExp):
        o = own_not_none(node.test)
        if o in cx.owns and self_attr(node.body) == o:
            return '(XOwnOr %d %s)' % (cx.owns.index(o), expr(cx, node.orelse))
    if isinstance(node, (ast.Name, ast.Attribute)):
        return '(XRef %s)' % ref(cx, node)
    cx.fail(node, 'expression outside the grammar')


def stmt(cx, s):
    """-> list of Coq st terms, or ('ret', term)"""
    if isinstance(s, ast.Return):
        if s.value is None or (isinstance(s.value, ast.Constant) and s.value.value is None):
            return ('ret', 'RetNone')
        kc = kid_call(cx, s.value)
        if kc is not None and kc[1].keywords:
            return [ipcall(cx, kc)], ('ret', 'RetLast')
        if isinstance(s.value, (ast.Name, ast.Attribute)):
            return ('ret', '(RetRef %s)' % ref(cx, s.value))
        return ('ret', '(RetEx %s)' % expr(cx, s.value))
    if isinstance(s, ast.If):
        # if self.OWN is not None: NAME = self.OWN else: NAME = EXPR
        o = own_not_none(s.test)
        if (o in cx.owns and len(s.body) == 1 and len(s.orelse) == 1
                and isinstance(s.body[0], ast.Assign) and isinstance(s.orelse[0], ast.Assign)
                and ast.unparse(s.body[0].targets[0]) == ast.unparse(s.orelse[0].targets[0])
                and self_attr(s.body[0].value) == o and isinstance(s.body[0].targets[0], ast.Name)):
            e = expr(cx, s.orelse[0].value)
            r = ref(cx, s.body[0].targets[0], bind=True)
            return ['TLet %s (XOwnOr %d %s)' % (r, cx.owns.index(o), e)]
        cx.fail(s, 'if statement outside the grammar')
    if isinstance(s, ast.Assign):
        if len(s.targets) != 1 or not isinstance(s.targets[0], ast.Name):
            cx.fail(s, 'assignment target outside the grammar')
        name = s.targets[0].id
        if is_scalar(cx, s.value) and name not in cx.locals and name not in ('x', 'out'):
            cx.salias[name] = scal(cx, s.value)        # sig = self.sigma
            return []
        kc = kid_call(cx, s.value)
        if kc is not None and cx.kids[kc[0]] in cx.fkids:
            if len(kc[1].args) != 1 or kc[1].keywords:
                cx.fail(s, 'functional call must have exactly one argument')
            a = expr(cx, kc[1].args[0])
            cx.slocals[name] = len(cx.slocals)
            return ['TLetS %d %d %s' % (cx.slocals[name], kc[0], a)]
        e = expr(cx, s.value)
        r = ref(cx, s.targets[0], bind=True)
        return ['TLet %s %s' % (r, e)]
    if isinstance(s, ast.AugAssign):
        o = ref(cx, s.target)
        if isinstance(s.op, ast.Add):
            return ['TIAdd %s %s' % (o, ref(cx, s.value))]
        if isinstance(s.op, ast.Mult):
            if is_scalar(cx, s.value):
                return ['TIScal %s %s' % (o, scal(cx, s.value))]
            return ['TIMul %s %s' % (o, ref(cx, s.value))]
        if isinstance(s.op, ast.Div) and is_scalar(cx, s.value):
            return ['TIDivS %s %s' % (o, scal(cx, s.value))]
        cx.fail(s, 'augmented assignment outside the grammar')
    if isinstance(s, ast.Expr) and isinstance(s.value, ast.Call):
        call = s.value
        kc = kid_call(cx, call)
        if kc is not None:
            return [ipcall(cx, kc)]
        if isinstance(call.func, ast.Attribute):
            meth, tgt = call.func.attr, call.func.value
            if meth == 'lincomb' and not call.keywords and len(call.args) in (2, 4):
                t = 'TLincomb %s %s %s ' % (ref(cx, tgt), scal(cx, call.args[0]), ref(cx, call.args[1]))
                if len(call.args) == 4:
                    t += '(Some (%s, %s))' % (scal(cx, call.args[2]), ref(cx, call.args[3]))
                else:
                    t += 'None'
                return [t]
            if (meth == 'multiply' and len(call.args) == 1 and len(call.keywords) == 1
                    and call.keywords[0].arg == 'out'):
                return ['TMultiply %s %s %s' % (ref(cx, tgt), ref(cx, call.args[0]),
                                                ref(cx, call.keywords[0].value))]
            if meth == 'assign' and len(call.args) == 1 and not call.keywords:
                return ['TAssign %s %s' % (ref(cx, tgt), expr(cx, call.args[0]))]
            if meth == 'set_zero' and not call.args and not call.keywords:
                return ['TSetZero %s' % ref(cx, tgt)]
            if (meth == 'divide' and len(call.args) == 1 and len(call.keywords) == 1
                    and call.keywords[0].arg == 'out'):
                src = tgt.value if (isinstance(tgt, ast.Attribute) and tgt.attr == 'ufuncs') else tgt
                return ['TDivide %s %s %s' % (ref(cx, src), ref(cx, call.args[0]), ref(cx, call.keywords[0].value))]
            if isinstance(tgt, ast.Attribute) and tgt.attr == 'ufuncs' and len(call.keywords) == 1 \
                    and call.keywords[0].arg == 'out':
                src, o = ref(cx, tgt.value), ref(cx, call.keywords[0].value)
                if meth == 'absolute' and not call.args:
                    return ['TUAbs %s %s' % (src, o)]
                if meth in ('maximum', 'minimum') and len(call.args) == 1 and is_scalar(cx, call.args[0]):
                    return ['%s %s %s %s' % ('TUMaxS' if meth == 'maximum' else 'TUMinS', src,
                                             scal(cx, call.args[0]), o)]
    cx.fail(s, 'statement outside the grammar')


def ipcall(cx, kc):
    k, call = kc
    if (len(call.args) != 1 or len(call.keywords) != 1 or call.keywords[0].arg != 'out'):
        cx.fail(call, 'in-place kid call must be self.KID(a, out=o)')
    return 'TCallIp %d %s %s' % (k, ref(cx, call.args[0]), ref(cx, call.keywords[0].value))


def body(cx, stmts):
    cx.locals, cx.slocals, cx.salias = {}, {}, {}
    sts, ret = [], 'RetNone'
    for i, s in enumerate(stmts):
        r = stmt(cx, s)
        if isinstance(r, tuple) and r and r[0] == 'ret':
            ret = r[1]
            if i != len(stmts) - 1:
                cx.fail(s, 'return before the end of a mode')
        elif isinstance(r, tuple):        # (stmts, ('ret', ..)) from `return self.kid(a, out=o)`
            sts += r[0]
            ret = r[1][1]
            if i != len(stmts) - 1:
                cx.fail(s, 'return before the end of a mode')
        else:
            sts += r
    # the input x must never be a write target: the model computes in exact arithmetic, where `x += h; ...; x -= h`
    # restores x, whereas floating point loses the last bits -- such a body is outside the grammar (fail closed)
    for t in sts:
        if (re.match(r'^(TLet|TLincomb|TIAdd|TIMul|TIScal|TAssign|TSetZero|TIDivS) RX\b', t)
                or re.match(r'^(TCallIp|TMultiply|TUAbs|TUMaxS|TUMinS|TDivide) .* RX$', t)):
            cx.fail(stmts[0], 'the body writes to its input x (%s)' % t)
    return '{| b_st := [%s]; b_ret := %s |}' % ('; '.join(sts), ret)


def dispatch_kind(fn, src):
    """Mirror of operator.py:_dispatch_call_args on the ast of `def _call`."""
    a = fn.args
    if a.vararg is not None:
        raise TranslateError('%s:%d: variable arguments in _call' % (src, fn.lineno))
    pos = [p.arg for p in a.posonlyargs + a.args]
    if len(pos) not in (2, 3):
        raise TranslateError('%s:%d: bad _call signature' % (src, fn.lineno))
    true_pos = pos[1:]
    kwonly = [p.arg for p in a.kwonlyargs]
    if len(true_pos) == 1:
        if 'out' in true_pos:
            raise TranslateError('%s:%d: out is the only positional argument' % (src, fn.lineno))
        if 'out' not in kwonly:
            return 'KOop'
        d = a.kw_defaults[kwonly.index('out')]
        if not (isinstance(d, ast.Constant) and d.value is None):
            raise TranslateError('%s:%d: out must default to None' % (src, fn.lineno))
        return 'KBoth'
    if true_pos[1] != 'out':
        raise TranslateError('%s:%d: second positional argument must be out' % (src, fn.lineno))
    if a.defaults:
        d = a.defaults[-1]
        if not (isinstance(d, ast.Constant) and d.value is None):
            raise TranslateError('%s:%d: out must default to None' % (src, fn.lineno))
        return 'KBoth'
    return 'KIp'


def find_call(tree, clsname):
    """clsname may be dotted: function.Class for classes defined inside a factory function."""
    node = tree
    for part in clsname.split('.'):
        nxt = None
        for n in ast.walk(node) if node is not tree else node.body:
            if isinstance(n, (ast.ClassDef, ast.FunctionDef)) and n.name == part and n is not node:
                nxt = n
                break
        if nxt is None:
            return None
        node = nxt
    if isinstance(node, ast.ClassDef):
        for m in node.body:
            if isinstance(m, ast.FunctionDef) and m.name == '_call':
                return m
    return None


def strip_doc(fn):
    b = fn.body
    if b and isinstance(b[0], ast.Expr) and isinstance(b[0].value, ast.Constant) and isinstance(b[0].value.value, str):
        b = b[1:]
    return b


def module_int(tree, name, src):
    for n in tree.body:
        if (isinstance(n, ast.Assign) and len(n.targets) == 1 and isinstance(n.targets[0], ast.Name)
                and n.targets[0].id == name and isinstance(n.value, ast.Constant)
                and isinstance(n.value.value, int)):
            return n.value.value
    raise TranslateError('%s: integer constant %s not found' % (src, name))


SMALL_UNGUARDED = "out.data[:] = a * x1.data + b * x2.data\nreturn"
SMALL_GUARDED = ("if a == 0 and b == 0:\n    out.data[:] = 0\nelif b == 0:\n    out.data[:] = a * x1.data\n"
                 "elif a == 0:\n    out.data[:] = b * x2.data\nelse:\n    out.data[:] = a * x1.data + b * x2.data\nreturn")


SMALL_ZEROZERO = ("if a == 0 and b == 0:\n    out.data[:] = 0\nelse:\n    out.data[:] = a * x1.data + b * x2.data\nreturn")


def small_regime_variant(tree):
    """The branch of npy_tensors._lincomb_impl for sizes below THRESHOLD_SMALL: the unguarded
    one-liner (False), the form that skips zero terms (True); anything else fails closed."""
    for n in tree.body:
        if isinstance(n, ast.FunctionDef) and n.name == '_lincomb_impl':
            for st in n.body:
                if isinstance(st, ast.If) and 'THRESHOLD_SMALL' in ast.unparse(st.test):
                    if ast.unparse(st.test) != 'size < THRESHOLD_SMALL or not is_floating_dtype(out.dtype)':
                        raise TranslateError('%s:%d: unexpected small-size test' % (NPY_TENSORS_PY, st.lineno))
                    txt = '\n'.join(ast.unparse(b) for b in st.body)
                    if txt == SMALL_UNGUARDED:
                        return 'SvUnguarded'
                    if txt == SMALL_ZEROZERO:
                        return 'SvZeroZero'
                    if txt == SMALL_GUARDED:
                        return 'SvGuarded' 
                    raise TranslateError('%s:%d: small-size branch of _lincomb_impl outside the grammar: %s'
                                         % (NPY_TENSORS_PY, st.lineno, txt[:200]))
    raise TranslateError('%s: _lincomb_impl small-size branch not found' % NPY_TENSORS_PY)


def _shape(node):
    """ast.unparse with every string constant blanked (messages are not part of the protocol)."""
    class Blank(ast.NodeTransformer):
        def visit_Constant(self, n):
            return ast.copy_location(ast.Constant(value=''), n) if isinstance(n.value, str) else n

        def visit_JoinedStr(self, n):
            return ast.copy_location(ast.Constant(value=''), n)
    import copy
    return ast.unparse(Blank().visit(copy.deepcopy(node)))


STEP_SHAPES = {
    "if x not in self.domain:\n    try:\n        x = self.domain.element(x)\n    except (TypeError, ValueError):\n"
    "        raise OpDomainError(''.format(x, self.domain))": 'StCastX',
    "if out not in self.range:\n    raise OpRangeError(''.format(out, self.range, self))": 'StCheckOut',
    "if self.is_functional:\n    raise TypeError('')": 'StNoOutForFunctional',
    "result = self._call_in_place(x, out=out, **kwargs)": 'StCallIp',
    "if result is not None and result is not out:\n    raise ValueError('')": 'StCheckReturn',
    "out = self._call_out_of_place(x, **kwargs)": 'StCallOop',
    "if out not in self.range:\n    try:\n        out = self.range.element(out)\n    except (TypeError, ValueError):\n"
    "        raise OpRangeError(''.format(out, self.range))": 'StCastResult',
    "return out": 'StReturnOut',
    "out = op.range.element()": 'StNewOut',
    "result = op._call_in_place(x, out, **kwargs)": 'StCallIp',
    "out.assign(op.range.element(op._call_out_of_place(x, **kwargs)))": 'StAssignCastOop',
}


def _steps(stmts, src):
    out = []
    for st in stmts:
        sh = _shape(st)
        if sh not in STEP_SHAPES:
            raise TranslateError('%s:%d: statement of the call protocol outside the grammar: %s'
                                 % (src, st.lineno, sh[:200]))
        out.append(STEP_SHAPES[sh])
    return out


def protocol(tree):
    """Operator.__call__ (both branches), the two default bridges and the slot table of Operator.__new__."""
    src = OPERATOR_PY
    funs = {n.name: n for n in tree.body if isinstance(n, ast.FunctionDef)}
    opcls = [n for n in tree.body if isinstance(n, ast.ClassDef) and n.name == 'Operator'][0]
    meths = {n.name: n for n in opcls.body if isinstance(n, ast.FunctionDef)}
    call = strip_doc(meths['__call__'])
    if not (len(call) == 3 and isinstance(call[1], ast.If) and ast.unparse(call[1].test) == 'out is not None'):
        raise TranslateError('%s: Operator.__call__ does not have the shape  cast x; if out is not None: .. else: ..; return'
                             % src)
    first, last = _steps([call[0]], src), _steps([call[2]], src)
    plan_ip = first + _steps(call[1].body, src) + last
    plan_oop = first + _steps(call[1].orelse, src) + last
    d_oop = _steps(strip_doc(funs['_default_call_out_of_place']), src)
    d_ip = _steps(strip_doc(funs['_default_call_in_place']), src)
    # Operator.__new__
    new = strip_doc(meths['__new__'])
    if not (len(new) == 2 and isinstance(new[0], ast.If)
            and ast.unparse(new[0].test) == "'_call_out_of_place' not in cls.__dict__"
            and ast.unparse(new[1]) == 'return object.__new__(cls)'):
        raise TranslateError('%s: Operator.__new__ outside the grammar' % src)
    body = new[0].body
    pre = [ast.unparse(b) for b in body[:3]]
    if pre != ['call_has_out, call_out_optional, _ = _dispatch_call_args(cls)', 'cls._call_has_out = call_has_out',
               'cls._call_out_optional = call_out_optional'] or len(body) != 4 or not isinstance(body[3], ast.If):
        raise TranslateError('%s: Operator.__new__ preamble outside the grammar' % src)

    def slots_of(stmts):
        m = {}
        for st in stmts:
            if not isinstance(st, ast.Assign):
                raise TranslateError('%s:%d: Operator.__new__ branch outside the grammar' % (src, st.lineno))
            val = ast.unparse(st.value)
            sl = {'cls._call': 'SlCall', '_default_call_in_place': 'SlDefaultIp',
                  '_default_call_out_of_place': 'SlDefaultOop'}.get(val)
            if sl is None:
                raise TranslateError('%s:%d: unknown slot value %s' % (src, st.lineno, val))
            for tg in st.targets:
                m[ast.unparse(tg)] = sl
        if set(m) != {'cls._call_in_place', 'cls._call_out_of_place'}:
            raise TranslateError('%s: Operator.__new__ branch does not set both slots' % src)
        return m['cls._call_in_place'], m['cls._call_out_of_place']
    br = body[3]
    if not (ast.unparse(br.test) == 'not call_has_out' and len(br.orelse) == 1 and isinstance(br.orelse[0], ast.If)
            and ast.unparse(br.orelse[0].test) == 'call_out_optional'):
        raise TranslateError('%s: Operator.__new__ case distinction outside the grammar' % src)
    table = {'KOop': slots_of(br.body), 'KBoth': slots_of(br.orelse[0].body), 'KIp': slots_of(br.orelse[0].orelse)}
    return plan_ip, plan_oop, d_oop, d_ip, table


def all_kinds(repo=None):
    """(class name, dispatch kind) for every class of the anchored files that defines `_call`."""
    repo = repo or REPO
    out = []
    for src in ANCHORED:
        tree = ast.parse(open(os.path.join(repo, src)).read())
        for n in ast.walk(tree):
            if isinstance(n, ast.ClassDef):
                for m in n.body:
                    if isinstance(m, ast.FunctionDef) and m.name == '_call':
                        out.append((n.name, dispatch_kind(m, src), src))
    return out


def translate(repo=None):
    repo = repo or REPO
    trees = {}
    out = ['(* GENERATED by translate/call_bodies.py from %s, %s, %s, %s -- do not edit *)'
           % (OPERATOR_PY, DEFAULT_OPS_PY, NPY_TENSORS_PY, PROXIMAL_PY),
           'From Coq Require Import ZArith QArith List String.',
           'From Verif Require Import C03.Syntax.',
           'Import ListNotations.',
           'Local Open Scope Q_scope.', '']
    t = ast.parse(open(os.path.join(repo, NPY_TENSORS_PY)).read())
    out.append('Definition threshold_small : nat := %d.' % module_int(t, 'THRESHOLD_SMALL', NPY_TENSORS_PY))
    out.append('Definition threshold_medium : Z := %d%%Z.' % module_int(t, 'THRESHOLD_MEDIUM', NPY_TENSORS_PY))
    out.append('(* which form the small-size branch of _lincomb_impl has *)')
    out.append('Definition small_guarded : small_variant := %s.' % small_regime_variant(t))
    out.append('')
    plan_ip, plan_oop, d_oop, d_ip, table = protocol(ast.parse(open(os.path.join(repo, OPERATOR_PY)).read()))
    out.append('(* Operator.__call__ with / without out, the two default bridges, Operator.__new__ *)')
    out.append('Definition call_plan_ip : list step := [%s].' % '; '.join(plan_ip))
    out.append('Definition call_plan_oop : list step := [%s].' % '; '.join(plan_oop))
    out.append('Definition default_oop_plan : list step := [%s].' % '; '.join(d_oop))
    out.append('Definition default_ip_plan : list step := [%s].' % '; '.join(d_ip))
    out.append('Definition new_slots (k : kind) : slot * slot :=\n  match k with %s end.'
               % ' | '.join('%s => (%s, %s)' % (k, table[k][0], table[k][1]) for k in ('KOop', 'KBoth', 'KIp')))
    out.append('')
    names = []
    for coqname, src, clsname, cfg in CLASSES:
        if src not in trees:
            trees[src] = ast.parse(open(os.path.join(repo, src)).read())
        fn = find_call(trees[src], clsname)
        if fn is None:
            raise TranslateError('%s: class %s has no _call' % (src, clsname))
        kind = dispatch_kind(fn, src)
        cx = Ctx(src, cfg)
        oop_s, ip_s = split_modes(cx, strip_doc(fn))
        b_oop = body(cx, oop_s) if kind != 'KIp' else 'no_body'
        b_ip = body(cx, ip_s) if kind != 'KOop' else 'no_body'
        out.append('Definition cls_%s : cls :=\n  {| c_kind := %s;\n     c_oop := %s;\n     c_ip := %s |}.'
                   % (coqname, kind, b_oop, b_ip))
        names.append(coqname)
    out.append('')
    kinds = all_kinds(repo)
    out.append('Definition call_kinds : list (string * kind) := [')
    out.append(';\n'.join('  ("%s"%%string, %s)' % (n, k) for n, k, _ in kinds))
    out.append('].')
    return '\n'.join(out) + '\n'
