"""Fail-closed translator:  the `proximal` properties of
    odl/solvers/functional/default_functionals.py   (class -> proximal factory bindings)
    odl/solvers/functional/functional.py            (calculus-rule wiring of the derived functionals)
and the bodies of the calculus-rule factories of
    odl/solvers/nonsmooth/proximal_operators.py     (operator expressions of translation / arg_scaling /
                                                     quadratic_perturbation / convex_conj / composition)
->  coq/Gen/ProxBindings.v   (pure data: terms of the syntax in coq/C07/BindSyntax.v)

Grammar accepted for a `proximal` property body (anything else raises TranslateError):
  body  := [docstring] stmt*
  stmt  := NAME = expr                       (local alias, recorded)
         | def NAME(sigma[=c]): [doc] return expr        (local factory, recorded)
         | class NAME(Operator): ...         (local operator class: recorded with the names it calls)
         | if cmp: body (elif cmp: body)* [else: body]
         | return expr | raise EXC(...)
  cmp   := attrchain (== | < ) (number | np.inf | np.infty)   |   NAME not in [..numbers..]
  expr  := NAME | attrchain | number | expr * expr | expr / expr | expr + expr | expr - expr | -expr
         | f(expr | kw=expr | *NAME ...)  with f a NAME or an attrchain
         | [expr for NAME in attrchain] | expr.attr
Grammar for a rule factory in proximal_operators.py: the nested factory's statements, same expr language.
"""
import ast
import os

from harness.common import TranslateError, REPO

DF = 'odl/solvers/functional/default_functionals.py'
FN = 'odl/solvers/functional/functional.py'
PO = 'odl/solvers/nonsmooth/proximal_operators.py'

DF_CLASSES = ['LpNorm', 'GroupL1Norm', 'IndicatorGroupL1UnitBall', 'IndicatorLpUnitBall', 'L2NormSquared',
              'ConstantFunctional', 'IndicatorBox', 'IndicatorZero', 'KullbackLeibler', 'KullbackLeiblerConvexConj',
              'KullbackLeiblerCrossEntropy', 'KullbackLeiblerCrossEntropyConvexConj', 'SeparableSum',
              'IndicatorNuclearNormUnitBall', 'IndicatorSimplex', 'IndicatorSumConstraint', 'Huber']
FN_CLASSES = ['FunctionalLeftScalarMult', 'FunctionalRightScalarMult', 'FunctionalScalarSum',
              'FunctionalTranslation', 'FunctionalQuadraticPerturb', 'FunctionalDefaultConvexConjugate',
              'BregmanDistance']
PO_RULES = ['combine_proximals', 'proximal_convex_conj', 'proximal_translation', 'proximal_arg_scaling',
            'proximal_quadratic_perturbation', 'proximal_composition', 'proximal_const_func',
            'proximal_nonnegativity', 'proximal_convex_conj_l2', 'proximal_linfty', 'proximal_convex_conj_linfty']


def fail(src, node, why):
    raise TranslateError('%s:%s: %s: %s' % (src, getattr(node, 'lineno', '?'), why,
                                            ast.unparse(node)[:140] if node is not None else ''))


def cs(s):
    return '"%s"' % s.replace('"', "'")


def lst(items):
    return '[' + '; '.join(items) + ']'


class Tr(object):
    def __init__(self, src):
        self.src = src

    # ---- expressions
    def attrchain(self, node):
        parts = []
        while isinstance(node, ast.Attribute):
            parts.append(node.attr)
            node = node.value
        if isinstance(node, ast.Name):
            parts.append(node.id)
            return '.'.join(reversed(parts))
        return None

    def number(self, node):
        if isinstance(node, ast.Constant) and isinstance(node.value, (int, float)) and not isinstance(node.value, bool):
            return node.value
        ch = self.attrchain(node)
        if ch in ('np.inf', 'np.infty'):
            return float('inf')
        return None

    def num_term(self, v):
        if v == float('inf'):
            return 'NInf'
        if float(v) == int(v):
            return '(NInt %d)' % int(v) if v >= 0 else '(NInt (%d))' % int(v)
        from fractions import Fraction
        f = Fraction(v).limit_denominator(10 ** 6)
        if float(f) != float(v):
            raise TranslateError('%s: non-dyadic constant %r' % (self.src, v))
        return '(NFrac %s %d)' % (('%d' % f.numerator) if f.numerator >= 0 else '(%d)' % f.numerator, f.denominator)

    def expr(self, node):
        v = self.number(node)
        if v is not None:
            return '(PNum %s)' % self.num_term(v)
        if isinstance(node, ast.Name):
            return '(PName %s)' % cs(node.id)
        if isinstance(node, ast.Constant) and node.value is None:
            return '(PName "None")'
        ch = self.attrchain(node)
        if ch is not None:
            return '(PAttr %s)' % cs(ch)
        if isinstance(node, ast.Attribute):            # attribute of a non-name, e.g. prox_factory(sigma).domain
            return '(PGet %s %s)' % (self.expr(node.value), cs(node.attr))
        if isinstance(node, ast.BinOp) and isinstance(node.op, (ast.Mult, ast.Div, ast.Add, ast.Sub)):
            op = {ast.Mult: '*', ast.Div: '/', ast.Add: '+', ast.Sub: '-'}[type(node.op)]
            return '(PBin %s %s %s)' % (cs(op), self.expr(node.left), self.expr(node.right))
        if isinstance(node, ast.UnaryOp) and isinstance(node.op, ast.USub):
            return '(PNeg %s)' % self.expr(node.operand)
        if isinstance(node, ast.Call):
            fname = self.attrchain(node.func)
            if fname is None:
                if isinstance(node.func, ast.Call):            # f(a)(b): curried call
                    fterm = self.expr(node.func)
                    args = [self.arg(a) for a in node.args] + [self.kw(k) for k in node.keywords]
                    return '(PApp %s %s)' % (fterm, lst(args))
                fail(self.src, node, 'call of a non-name')
            args = [self.arg(a) for a in node.args] + [self.kw(k) for k in node.keywords]
            return '(PCall %s %s)' % (cs(fname), lst(args))
        if isinstance(node, ast.ListComp) and len(node.generators) == 1 and not node.generators[0].ifs:
            g = node.generators[0]
            if isinstance(g.target, ast.Name):
                it = self.expr(g.iter)
                return '(PComp %s %s %s)' % (self.expr(node.elt), cs(g.target.id), it)
            if isinstance(g.target, ast.Tuple) and all(isinstance(e, ast.Name) for e in g.target.elts):
                return '(PComp %s %s %s)' % (self.expr(node.elt), cs(','.join(e.id for e in g.target.elts)),
                                             self.expr(g.iter))
        if isinstance(node, ast.List):
            return '(PList %s)' % lst([self.expr(e) for e in node.elts])
        fail(self.src, node, 'expression outside the grammar')

    def arg(self, node):
        if isinstance(node, ast.Starred) and isinstance(node.value, ast.Name):
            return '(PStar %s)' % cs(node.value.id)
        if isinstance(node, ast.Starred):
            return '(PStarE %s)' % self.expr(node.value)
        return self.expr(node)

    def kw(self, k):
        if k.arg is None:
            fail(self.src, k.value, '**kwargs')
        return '(PKw %s %s)' % (cs(k.arg), self.expr(k.value))

    # ---- conditions
    def cond(self, node):
        if isinstance(node, ast.Compare) and len(node.ops) == 1:
            op, right = node.ops[0], node.comparators[0]
            left = self.attrchain(node.left)
            if left is not None and isinstance(op, (ast.Eq, ast.Lt, ast.NotEq)):
                v = self.number(right)
                if v is not None:
                    return '(CCmp %s %s %s)' % (cs(left), cs({ast.Eq: '==', ast.Lt: '<', ast.NotEq: '!='}[type(op)]),
                                                self.num_term(v))
            if left is not None and isinstance(op, ast.NotIn) and isinstance(right, ast.List):
                vs = [self.number(e) for e in right.elts]
                if all(v is not None for v in vs):
                    return '(CNotIn %s %s)' % (cs(left), lst([self.num_term(v) for v in vs]))
        if isinstance(node, ast.Compare) and len(node.ops) == 1 and \
                isinstance(node.ops[0], (ast.Eq, ast.NotEq, ast.Lt, ast.LtE, ast.Gt, ast.GtE)):
            op = {ast.Eq: '==', ast.NotEq: '!=', ast.Lt: '<', ast.LtE: '<=', ast.Gt: '>', ast.GtE: '>='}[type(node.ops[0])]
            return '(CCmpE %s %s %s)' % (cs(op), self.expr(node.left), self.expr(node.comparators[0]))
        if isinstance(node, ast.Call) and self.attrchain(node.func) == 'np.isscalar' and len(node.args) == 1:
            return '(CIsScalar %s)' % self.expr(node.args[0])
        if isinstance(node, ast.Call) and self.attrchain(node.func) == 'isinstance' and len(node.args) == 2:
            return '(CIsInstance %s %s)' % (self.expr(node.args[0]), cs(ast.unparse(node.args[1])))
        if isinstance(node, ast.BoolOp) and isinstance(node.op, ast.And):
            return '(CAnd %s)' % lst([self.cond(v) for v in node.values])
        if isinstance(node, ast.UnaryOp) and isinstance(node.op, ast.Not):
            return '(CNot %s)' % self.cond(node.operand)
        if isinstance(node, ast.Compare) and len(node.ops) == 1 and isinstance(node.ops[0], (ast.IsNot, ast.Is)):
            return '(CIs %s %s %s)' % (cs('is not' if isinstance(node.ops[0], ast.IsNot) else 'is'),
                                       self.expr(node.left), self.expr(node.comparators[0]))
        fail(self.src, node, 'condition outside the grammar')

    # ---- statements
    def strip_doc(self, body):
        if body and isinstance(body[0], ast.Expr) and isinstance(body[0].value, ast.Constant) \
                and isinstance(body[0].value.value, str):
            return body[1:]
        return body

    def calls_in(self, node):
        names = []
        for n in ast.walk(node):
            if isinstance(n, ast.Call):
                ch = self.attrchain(n.func)
                if ch and '.' not in ch and ch not in ('super', 'float', 'getattr', 'zip', 'len', 'isinstance'):
                    if ch not in names:
                        names.append(ch)
        return sorted(names)

    def body(self, stmts):
        stmts = self.strip_doc(stmts)
        if not stmts:
            return 'BEnd'
        st, rest = stmts[0], stmts[1:]
        if isinstance(st, ast.Assign) and len(st.targets) == 1 and isinstance(st.targets[0], ast.Name):
            return '(BLet %s %s %s)' % (cs(st.targets[0].id), self.expr(st.value), self.body(rest))
        if isinstance(st, ast.FunctionDef):
            args = [a.arg for a in st.args.args]
            return '(BDef %s %s %s %s)' % (cs(st.name), lst([cs(a) for a in args]), self.body(st.body), self.body(rest))
        if isinstance(st, ast.ClassDef):
            return '(BClass %s %s %s)' % (cs(st.name), lst([cs(c) for c in self.calls_in(st)]), self.body(rest))
        if isinstance(st, ast.If):
            if rest:
                # statements after an if: only allowed when every branch of the if ends in return/raise or is a guard
                return '(BIfSeq %s %s %s %s)' % (self.cond(st.test), self.body(st.body), self.body(st.orelse),
                                                 self.body(rest))
            return '(BIf %s %s %s)' % (self.cond(st.test), self.body(st.body), self.body(st.orelse))
        if isinstance(st, ast.Return):
            if rest:
                fail(self.src, rest[0], 'statement after return')
            return '(BRet %s)' % self.expr(st.value)
        if isinstance(st, ast.Raise):
            exc = st.exc
            name = self.attrchain(exc.func) if isinstance(exc, ast.Call) else self.attrchain(exc)
            if name is None:
                fail(self.src, st, 'raise of a non-name')
            return '(BRaise %s)' % cs(name)
        fail(self.src, st, 'statement outside the grammar')


def _module(path):
    with open(os.path.join(REPO, path)) as fh:
        return ast.parse(fh.read())


def _prox_property(tr, mod, cls):
    for node in mod.body:
        if isinstance(node, ast.ClassDef) and node.name == cls:
            for item in node.body:
                if isinstance(item, ast.FunctionDef) and item.name == 'proximal':
                    if not any(isinstance(d, ast.Name) and d.id == 'property' for d in item.decorator_list):
                        fail(tr.src, item, '`proximal` is not a property')
                    return tr.body(item.body)
            return None
    raise TranslateError('%s: class %s not found' % (tr.src, cls))


def _function(tr, mod, name):
    for node in mod.body:
        if isinstance(node, ast.FunctionDef) and node.name == name:
            args = [a.arg for a in node.args.args]
            return lst([cs(a) for a in args]), tr.body(node.body)
    raise TranslateError('%s: function %s not found' % (tr.src, name))


def translate():
    out = ['(* GENERATED by translate/prox_bindings.py from the current source of /repo -- do not edit. *)',
           'From Coq Require Import ZArith String List.',
           'From Verif Require Import C07.BindSyntax.',
           'Import ListNotations.',
           'Local Open Scope string_scope.', '']
    tr = Tr(DF)
    mod = _module(DF)
    for cls in DF_CLASSES:
        term = _prox_property(tr, mod, cls)
        if term is None:
            raise TranslateError('%s: class %s has no proximal property' % (DF, cls))
        out.append('Definition bind_%s : pbody :=\n  %s.' % (cls, term))
    # classes that must NOT define a proximal of their own (they inherit): recorded so that a new override is noticed
    for cls, base in (('L1Norm', 'LpNorm'), ('L2Norm', 'LpNorm'), ('ZeroFunctional', 'ConstantFunctional'),
                      ('IndicatorNonnegativity', 'IndicatorBox')):
        if _prox_property(tr, mod, cls) is not None:
            raise TranslateError('%s: class %s now overrides proximal' % (DF, cls))
        out.append('Definition inherits_%s : string := %s.' % (cls, cs(base)))
    tr = Tr(FN)
    mod = _module(FN)
    for cls in FN_CLASSES:
        term = _prox_property(tr, mod, cls)
        if term is None:
            raise TranslateError('%s: class %s has no proximal property' % (FN, cls))
        out.append('Definition wire_%s : pbody :=\n  %s.' % (cls, term))
    tr = Tr(PO)
    mod = _module(PO)
    for name in PO_RULES:
        args, term = _function(tr, mod, name)
        out.append('Definition rule_%s_args : list string := %s.' % (name, args))
        out.append('Definition rule_%s : pbody :=\n  %s.' % (name, term))
    return '\n'.join(out) + '\n'
