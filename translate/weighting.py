"""Fail-closed translator: the regular dispatch code of the weighting classes -> coq/Gen/Weighting.v

Sources and grammar accepted (anything else raises TranslateError):

  odl/space/npy_tensors.py
    NumpyTensorSpaceConstWeighting.norm / .dist
        if self.exponent == 2.0: return float(E) elif self.exponent == float('inf'): return float(E)
        else: return float(E)
    NumpyTensorSpaceConstWeighting.inner / NumpyTensorSpaceArrayWeighting.inner
        if self.exponent != 2.0: raise NotImplementedError(...) else: inner = E ; (return-wrapping ignored)
  odl/space/pspace.py
    ProductSpaceConstWeighting.dist
        [if len(x1) == 0: return 0.0]  dnorms = np.fromiter(((x1i - x2i).norm() ...)...)
        if self.exponent == float('inf'): return E else: return E
    ProductSpaceConstWeighting.norm / ProductSpaceArrayWeighting.norm   (the component-norm branch)
        ... else: norms = np.fromiter((xi.norm() for xi in x) ...)
                  if self.exponent in (1.0, float('inf')): (return E | norms *= self.array)
                  else: (return E | norms *= self.array ** (1.0 / self.exponent))
                  [return float(np.linalg.norm(norms, ord=self.exponent))]
  odl/discr/discr_space.py
    DiscretizedSpace.is_uniformly_weighted   : an `or` of recognised atoms
    _scaling_func_list                       : isclose(frac, 1.0) -> None else scaling(frac ** (1 / exponent))
    uniform_discr_frompartition              : default weighting  1.0 if (exponent == inf or ndim == 0) else cell_volume

  E := self.const | self.array | number | np.sqrt(E) | float(E) | (E) | E * E | E ** (1 / self.exponent)
     | _norm_default(A) | _pnorm_default(A, self.exponent) | np.linalg.norm(V, ord=self.exponent)
     | _inner_default(A, A) | A * self.array
  A := x | x1 | x2 | x1 - x2          V := norms | dnorms
"""
import ast
import os

from harness.common import TranslateError, REPO


def fail(src, node, why):
    raise TranslateError('%s:%s: %s: %s' % (src, getattr(node, 'lineno', '?'), why,
                                            ast.unparse(node)[:140] if node is not None else ''))


def _strip_doc(body):
    if body and isinstance(body[0], ast.Expr) and isinstance(getattr(body[0], 'value', None), ast.Constant) \
            and isinstance(body[0].value.value, str):
        return body[1:]
    return body


def _find(tree, cls, name):
    for n in tree.body:
        if cls is None and isinstance(n, ast.FunctionDef) and n.name == name:
            return n
        if isinstance(n, ast.ClassDef) and n.name == cls:
            for f in n.body:
                if isinstance(f, ast.FunctionDef) and f.name == name:
                    return f
    raise TranslateError('%s.%s not found' % (cls, name))


def _is_self_attr(n, attr):
    return (isinstance(n, ast.Attribute) and n.attr == attr and isinstance(n.value, ast.Name)
            and n.value.id == 'self')


def _is_inf(n):
    return (isinstance(n, ast.Call) and isinstance(n.func, ast.Name) and n.func.id == 'float'
            and len(n.args) == 1 and isinstance(n.args[0], ast.Constant) and n.args[0].value == 'inf')


def _is_inv_expo(n, name_ok=False):
    """1 / self.exponent   (or 1 / exponent)"""
    if not (isinstance(n, ast.BinOp) and isinstance(n.op, ast.Div) and isinstance(n.left, ast.Constant)
            and n.left.value in (1, 1.0)):
        return False
    return _is_self_attr(n.right, 'exponent') or (name_ok and isinstance(n.right, ast.Name)
                                                   and n.right.id == 'exponent')


class Tr(object):
    def __init__(self, src):
        self.src = src

    def arg(self, n):
        if isinstance(n, ast.Name) and n.id in ('x', 'x1'):
            return 'AX'
        if isinstance(n, ast.Name) and n.id == 'x2':
            return 'AY'
        if (isinstance(n, ast.BinOp) and isinstance(n.op, ast.Sub) and isinstance(n.left, ast.Name)
                and n.left.id == 'x1' and isinstance(n.right, ast.Name) and n.right.id == 'x2'):
            return 'AXmY'
        if (isinstance(n, ast.BinOp) and isinstance(n.op, ast.Mult) and isinstance(n.left, ast.Name)
                and n.left.id == 'x1' and _is_self_attr(n.right, 'array')):
            return 'AXw'
        if isinstance(n, ast.Name) and n.id in ('norms', 'dnorms'):
            return 'AV'
        fail(self.src, n, 'argument outside the grammar')

    def expr(self, n):
        if _is_self_attr(n, 'const'):
            return 'WC'
        if isinstance(n, ast.Call) and isinstance(n.func, ast.Name) and n.func.id == 'float' and len(n.args) == 1 \
                and not _is_inf(n):
            return self.expr(n.args[0])
        if isinstance(n, ast.Call) and ast.unparse(n.func) == 'np.sqrt' and len(n.args) == 1:
            return '(WSqrt %s)' % self.expr(n.args[0])
        if isinstance(n, ast.BinOp) and isinstance(n.op, ast.Mult):
            return '(WMul %s %s)' % (self.expr(n.left), self.expr(n.right))
        if isinstance(n, ast.BinOp) and isinstance(n.op, ast.Pow) and _is_inv_expo(n.right):
            return '(WPowInv %s)' % self.expr(n.left)
        if isinstance(n, ast.Call) and isinstance(n.func, ast.Name) and n.func.id == '_norm_default' \
                and len(n.args) == 1 and not n.keywords:
            return '(WNrm2 %s)' % self.arg(n.args[0])
        if isinstance(n, ast.Call) and isinstance(n.func, ast.Name) and n.func.id == '_pnorm_default' \
                and len(n.args) == 2 and _is_self_attr(n.args[1], 'exponent'):
            return '(WPnorm %s)' % self.arg(n.args[0])
        if isinstance(n, ast.Call) and ast.unparse(n.func) == 'np.linalg.norm' and len(n.args) == 1 \
                and len(n.keywords) == 1 and n.keywords[0].arg == 'ord' \
                and _is_self_attr(n.keywords[0].value, 'exponent'):
            return '(WPnorm %s)' % self.arg(n.args[0])
        if isinstance(n, ast.Call) and isinstance(n.func, ast.Name) and n.func.id == '_inner_default' \
                and len(n.args) == 2:
            return '(WDot %s %s)' % (self.arg(n.args[0]), self.arg(n.args[1]))
        fail(self.src, n, 'expression outside the grammar')

    def cond(self, n):
        """test on self.exponent"""
        if isinstance(n, ast.Compare) and len(n.ops) == 1 and _is_self_attr(n.left, 'exponent'):
            op, c = n.ops[0], n.comparators[0]
            if isinstance(op, ast.Eq) and isinstance(c, ast.Constant) and c.value == 2.0:
                return 'CExp2'
            if isinstance(op, ast.NotEq) and isinstance(c, ast.Constant) and c.value == 2.0:
                return 'CExpNot2'
            if isinstance(op, ast.Eq) and _is_inf(c):
                return 'CExpInf'
            if isinstance(op, ast.In) and isinstance(c, ast.Tuple) and len(c.elts) == 2 \
                    and isinstance(c.elts[0], ast.Constant) and c.elts[0].value == 1.0 and _is_inf(c.elts[1]):
                return 'CExp1Inf'
        fail(self.src, n, 'condition outside the grammar')

    def ret(self, stmt):
        if isinstance(stmt, ast.Return) and stmt.value is not None:
            return self.expr(stmt.value)
        fail(self.src, stmt, 'expected `return E`')

    def if_chain(self, node):
        """if C: return E (elif C: return E)* else: return E  ->  [(cond, expr)]"""
        rows = []
        while True:
            if not isinstance(node, ast.If) or len(node.body) != 1:
                fail(self.src, node, 'expected a one-statement if branch')
            rows.append((self.cond(node.test), self.ret(node.body[0])))
            if len(node.orelse) == 1 and isinstance(node.orelse[0], ast.If):
                node = node.orelse[0]
                continue
            if len(node.orelse) != 1:
                fail(self.src, node, 'expected a one-statement else branch')
            rows.append(('CElse', self.ret(node.orelse[0])))
            return rows


def _tab(rows):
    return '[' + '; '.join('(%s, %s)' % r for r in rows) + ']'


def translate():
    out = ['(* GENERATED by translate/weighting.py from odl/space/npy_tensors.py, odl/space/pspace.py and',
           '   odl/discr/discr_space.py -- do not edit.  Meaning of the syntax: C02/GenSem.v. *)',
           'From Coq Require Import List.', 'From Verif Require Import C02.GenSyntax.', 'Import ListNotations.', '']
    # ---------------- tensor-space constant weighting
    src = 'odl/space/npy_tensors.py'
    tree = ast.parse(open(os.path.join(REPO, src)).read())
    t = Tr(src)
    for name in ('norm', 'dist'):
        body = _strip_doc(_find(tree, 'NumpyTensorSpaceConstWeighting', name).body)
        if len(body) != 1:
            fail(src, body[0] if body else None, 'ConstWeighting.%s: expected a single if chain' % name)
        out.append('Definition gen_tconst_%s : wtable := %s.' % (name, _tab(t.if_chain(body[0]))))
    for cls, nm in (('NumpyTensorSpaceConstWeighting', 'tconst'), ('NumpyTensorSpaceArrayWeighting', 'tarr')):
        body = _strip_doc(_find(tree, cls, 'inner').body)
        if len(body) != 1 or not isinstance(body[0], ast.If):
            fail(src, body[0] if body else None, '%s.inner: expected if/else' % cls)
        node = body[0]
        if t.cond(node.test) != 'CExpNot2' or len(node.body) != 1 or not isinstance(node.body[0], ast.Raise) \
                or 'NotImplementedError' not in ast.unparse(node.body[0]):
            fail(src, node, '%s.inner: expected `if self.exponent != 2.0: raise NotImplementedError`' % cls)
        first = node.orelse[0] if node.orelse else None
        if not (isinstance(first, ast.Assign) and len(first.targets) == 1
                and isinstance(first.targets[0], ast.Name) and first.targets[0].id == 'inner'):
            fail(src, first, '%s.inner: expected `inner = E`' % cls)
        for rest in node.orelse[1:]:        # only the real/complex/field wrapping of `inner` may follow
            txt = ast.unparse(rest)
            if not all(tok in ('if', 'is_real_dtype', 'x1', 'dtype', 'return', 'float', 'inner', 'else', 'complex',
                               'space', 'field', 'is', 'None', 'element', '') for tok in
                       txt.replace('(', ' ').replace(')', ' ').replace('.', ' ').replace(':', ' ').split()):
                fail(src, rest, '%s.inner: unexpected statement after `inner = E`' % cls)
        out.append('Definition gen_%s_inner : wexpr := %s.' % (nm, t.expr(first.value)))
    # ---------------- default kernels: which formula for which dtype / size regime
    def kernel_tree(n):
        """if/else tree over (is_real_dtype(x1.dtype), x1.size > THRESHOLD_MEDIUM) with return-leaves"""
        if isinstance(n, list):
            if len(n) != 1:
                fail(src, n[0] if n else None, '_inner_default: expected a single statement per branch')
            n = n[0]
        if isinstance(n, ast.If):
            txt = ast.unparse(n.test)
            if txt == 'is_real_dtype(x1.dtype)':
                c = 'KIsReal'
            elif txt == 'x1.size > THRESHOLD_MEDIUM':
                c = 'KIsLarge'
            else:
                fail(src, n, '_inner_default: unknown condition')
            return '(KIf %s %s %s)' % (c, kernel_tree(n.body), kernel_tree(n.orelse))
        if isinstance(n, ast.Return):
            txt = ast.unparse(n.value)
            if txt == 'np.tensordot(x1, x2, [range(x1.ndim)] * 2)':
                return '(KLeaf KBilinear)'          # sum(x1 * x2), no conjugation
            if txt == 'np.dot(x1.data.ravel(order), x2.data.ravel(order))':
                return '(KLeaf KBilinear)'
            if txt == 'np.vdot(x2.data.ravel(order), x1.data.ravel(order))':
                return '(KLeaf KConjSecond)'        # sum(x1 * conj(x2))
            if txt == 'np.vdot(x1.data.ravel(order), x2.data.ravel(order))':
                return '(KLeaf KConjFirst)'
        fail(src, n, '_inner_default: statement outside the grammar')
    f = _find(tree, None, '_inner_default')
    body = _strip_doc(f.body)
    if len(body) != 2 or ast.unparse(body[0]) != \
            "order = 'F' if all((a.data.flags.f_contiguous for a in (x1, x2))) else 'C'":
        fail(src, body[0] if body else None, '_inner_default: expected `order = ...` then one if tree')
    out.append('Definition gen_inner_default : ktree := %s.' % kernel_tree(body[1]))
    # _norm_default / _pnorm_default: empty guard, then nrm2 (BLAS) or np.linalg.norm of the raveled data
    f = _find(tree, None, '_norm_default')
    body = [ast.unparse(b) for b in _strip_doc(f.body)]
    want = ['import scipy.linalg', 'if x.data.size == 0:\n    return 0.0',
            "if _blas_is_applicable(x.data):\n    nrm2 = scipy.linalg.blas.get_blas_funcs('nrm2', dtype=x.dtype)\n"
            "    norm = partial(nrm2, n=native(x.data.size))\nelse:\n    norm = np.linalg.norm",
            'return norm(x.data.ravel())']
    if body != want:
        fail(src, f, '_norm_default: body changed')
    f = _find(tree, None, '_pnorm_default')
    body = [ast.unparse(b) for b in _strip_doc(f.body)]
    if body != ['if x.data.size == 0:\n    return 0.0', 'return np.linalg.norm(x.data.ravel(), ord=p)']:
        fail(src, f, '_pnorm_default: body changed')
    out.append('(* _norm_default = 2-norm of all entries (nrm2 / np.linalg.norm), _pnorm_default = p-norm of all')
    out.append('   entries, both 0 on empty data: bodies compared verbatim by the translator *)')
    out.append('Definition gen_norm_kernels_verbatim : bool := true.')
    # ---------------- product spaces
    src = 'odl/space/pspace.py'
    tree = ast.parse(open(os.path.join(REPO, src)).read())
    t = Tr(src)

    def drop_empty_guard(body, var):
        """optional leading  `if len(var) == 0: return 0.0`"""
        if body and isinstance(body[0], ast.If) and ast.unparse(body[0].test) == 'len(%s) == 0' % var \
                and len(body[0].body) == 1 and ast.unparse(body[0].body[0]) == 'return 0.0' and not body[0].orelse:
            return body[1:], True
        return body, False
    body = _strip_doc(_find(tree, 'ProductSpaceConstWeighting', 'dist').body)
    body, guard = drop_empty_guard(body, 'x1')
    if len(body) != 2 or not isinstance(body[0], ast.Assign) or \
            '(x1i - x2i).norm() for x1i, x2i in zip(x1, x2)' not in ast.unparse(body[0]) or \
            ast.unparse(body[0].targets[0]) != 'dnorms':
        fail(src, body[0] if body else None, 'ProductSpaceConstWeighting.dist: expected dnorms = fromiter(...) ; if')
    out.append('Definition gen_pconst_dist : wtable := %s.' % _tab(t.if_chain(body[1])))
    out.append('Definition gen_pconst_dist_empty_guard : bool := %s.' % ('true' if guard else 'false'))

    def norm_else_branch(cls):
        """the component-norm branch of ProductSpace*Weighting.norm and whether exponent 2 goes through inner"""
        body = _strip_doc(_find(tree, cls, 'norm').body)
        if len(body) != 1 or not isinstance(body[0], ast.If):
            fail(src, body[0] if body else None, '%s.norm: expected one if chain' % cls)
        node = body[0]
        guard = False
        if ast.unparse(node.test) == 'len(x) == 0':
            if ast.unparse(node.body[0]) != 'return 0.0' or len(node.orelse) != 1:
                fail(src, node, '%s.norm: unexpected empty-product guard' % cls)
            guard = True
            node = node.orelse[0]
        via_inner = False
        if isinstance(node, ast.If) and t.cond(node.test) == 'CExp2':
            txt = [ast.unparse(s) for s in node.body]
            if txt != ['norm_squared = self.inner(x, x).real', 'return np.sqrt(norm_squared)']:
                fail(src, node, '%s.norm: unexpected exponent-2 branch' % cls)
            via_inner = True
            els = node.orelse
        elif isinstance(node, ast.If) and ast.unparse(node.test) == 'True':
            els = node.body
        else:
            els = [node] if not isinstance(node, list) else node
        if not els or 'xi.norm() for xi in x' not in ast.unparse(els[0]) or \
                ast.unparse(els[0].targets[0]) != 'norms':
            fail(src, els[0] if els else None, '%s.norm: expected norms = fromiter(xi.norm() ...)' % cls)
        return els[1:], via_inner, guard
    rest, via_c, guard_c = norm_else_branch('ProductSpaceConstWeighting')
    if len(rest) != 1:
        fail(src, rest[0] if rest else None, 'ProductSpaceConstWeighting.norm: expected one if/else')
    out.append('Definition gen_pconst_norm : wtable := %s.' % _tab(t.if_chain(rest[0])))
    rest, via_a, guard_a = norm_else_branch('ProductSpaceArrayWeighting')
    # norms *= self.array | norms *= self.array ** (1.0 / self.exponent) ; return float(norm(norms, ord=exponent))
    if len(rest) != 2 or not isinstance(rest[0], ast.If) or t.cond(rest[0].test) != 'CExp1Inf':
        fail(src, rest[0] if rest else None, 'ProductSpaceArrayWeighting.norm: expected if exponent in (1, inf)')
    a, b = rest[0].body, rest[0].orelse
    if [ast.unparse(s) for s in a] != ['norms *= self.array']:
        fail(src, a[0], 'ProductSpaceArrayWeighting.norm: expected norms *= self.array')
    if len(b) != 1 or not (isinstance(b[0], ast.AugAssign) and isinstance(b[0].op, ast.Mult)
                           and ast.unparse(b[0].target) == 'norms' and isinstance(b[0].value, ast.BinOp)
                           and isinstance(b[0].value.op, ast.Pow) and _is_self_attr(b[0].value.left, 'array')
                           and _is_inv_expo(b[0].value.right)):
        fail(src, b[0] if b else None, 'ProductSpaceArrayWeighting.norm: expected norms *= self.array ** (1 / p)')
    if t.expr(rest[1].value if isinstance(rest[1], ast.Return) else None) != '(WPnorm AV)':
        fail(src, rest[1], 'ProductSpaceArrayWeighting.norm: expected return float(np.linalg.norm(norms, ord=p))')
    out.append('(* array weighting: norms are multiplied by [SWeights] for p in {1, inf}, by [SWeightsPowInv] otherwise *)')
    out.append('Definition gen_parr_norm_scaling : list (wcond * wscale) := '
               '[(CExp1Inf, SWeights); (CElse, SWeightsPowInv)].')
    if via_c != via_a:
        raise TranslateError('ProductSpace{Const,Array}Weighting.norm differ in their exponent-2 branch')
    out.append('Definition gen_ps2_via_inner : bool := %s.' % ('true' if via_c else 'false'))
    # ---------------- discretized spaces
    src = 'odl/discr/discr_space.py'
    tree = ast.parse(open(os.path.join(REPO, src)).read())
    f = _find(tree, 'DiscretizedSpace', 'is_uniformly_weighted')
    val = None
    for n in ast.walk(f):
        if isinstance(n, ast.Assign) and ast.unparse(n.targets[0]) == 'is_uniformly_weighted' \
                and isinstance(n.value, ast.BoolOp):
            val = n.value
    if val is None or not isinstance(val.op, ast.Or):
        fail(src, f, 'is_uniformly_weighted: expected `is_uniformly_weighted = A or B ...`')
    atoms = []
    for a in val.values:
        txt = ast.unparse(a)
        if txt == 'np.allclose(bdry_fracs, 1.0)':
            atoms.append('UAllClose')
        elif txt == "self.exponent == float('inf')":
            atoms.append('UExpInf')
        elif txt == "not getattr(self.tspace, 'is_weighted', False)":
            atoms.append('UNotWeighted')
        else:
            fail(src, a, 'is_uniformly_weighted: unknown atom')
    out.append('Definition gen_unif_weighted : list uatom := [%s].' % '; '.join(atoms))
    f = _find(tree, None, '_scaling_func_list')
    loops = [n for n in f.body if isinstance(n, ast.For)]
    if len(loops) != 1 or ast.unparse(loops[0].target) != '(frac_l, frac_r)':
        fail(src, f, '_scaling_func_list: expected one loop over (frac_l, frac_r)')
    ifs = [n for n in loops[0].body if isinstance(n, ast.If)]
    if len(ifs) != 2:
        fail(src, loops[0], '_scaling_func_list: expected two if statements')
    for node, v in zip(ifs, ('frac_l', 'frac_r')):
        if ast.unparse(node.test) != 'np.isclose(%s, 1.0)' % v or \
                ast.unparse(node.body[0]) != 'func_list_entry.append(None)' or \
                ast.unparse(node.orelse[0]) != 'func_list_entry.append(scaling(%s ** (1 / exponent)))' % v:
            fail(src, node, '_scaling_func_list: unexpected branch')
    inner_scaling = [n for n in ast.walk(f) if isinstance(n, ast.FunctionDef) and n.name == 'scaling_func']
    if len(inner_scaling) != 1 or ast.unparse(inner_scaling[0].body[-1]) != 'return x * factor':
        fail(src, f, '_scaling_func_list: scaling_func must return x * factor')
    out.append('(* per side: np.isclose(frac, 1.0) -> None (identity), else multiply by frac ** (1 / exponent) *)')
    out.append('Definition gen_scaling : wcond_frac * fscale * fscale := (FIsClose1, FIdentity, FMulPowInv).')
    f = _find(tree, None, 'uniform_discr_frompartition')
    node = None
    for n in ast.walk(f):
        if isinstance(n, ast.If) and ast.unparse(n.test) == 'weighting is None and is_numeric_dtype(dtype)':
            node = n
    if node is None or len(node.body) != 1 or not isinstance(node.body[0], ast.If):
        fail(src, f, 'uniform_discr_frompartition: default weighting block not found')
    d = node.body[0]
    if ast.unparse(d.test) != "exponent == float('inf') or partition.ndim == 0" or \
            ast.unparse(d.body[0]) != 'weighting = 1.0' or ast.unparse(d.orelse[0]) != 'weighting = partition.cell_volume':
        fail(src, d, 'uniform_discr_frompartition: unexpected default weighting rule')
    out.append('Definition gen_default_weighting : list datom * dval * dval := ([DExpInf; DNdim0], DOne, DCellVolume).')
    return '\n'.join(out) + '\n'
