"""Fail-closed translator:  odl/discr/partition.py, odl/discr/grid.py, odl/util/normalize.py
  ->  coq/Gen/Partition.v

What is regenerated (everything else of the C14 model is hand-written + correspondence):
  * uniform_grid_fromintv: the if/elif chain over (bdry_l, bdry_r) with its gmin/gmax formulas
  * uniform_partition: the completion formula of every missing-parameter branch
    (xmin / xmax / n / dx / all four given), in the order the code tests them
  * RectPartition.boundary_cell_fractions: left/right fraction, the one-point value
  * RectPartition.__init__: the midpoint rule bdry[1:-1] = (vec[1:] + vec[:-1]) / 2.0 and the two ends
  * RectPartition.index: the edge rules after searchsorted (integer and floating variant)
  * normalized_index_expression: wrap of a negative integer, the bounds test, the int -> slice conversion

Grammar of expressions (anything else raises TranslateError):
  E := name | int | float | E (+|-|*|/) E | -E | v[int] | v[Z-expr] | sum([b, b]) | float(E) | len(v)
  C := E (==|!=|<|<=|>|>=) E | C and C | C or C | not C | name (bool)
Typing: 'Z' (Python int), 'T' (Python/NumPy float -> the carrier), 'B' (bool), 'L' (vector of T).
Mixed arithmetic coerces the integer side with of_Z; true division always yields T.
"""
import ast
import os
from fractions import Fraction

from harness.common import TranslateError, REPO

SRC_P = 'odl/discr/partition.py'
SRC_G = 'odl/discr/grid.py'
SRC_N = 'odl/util/normalize.py'


def N(text):
    """text with parentheses and blanks removed (ast.unparse differs between Python versions there)"""
    return text.replace('(', '').replace(')', '').replace(' ', '')


def U(node):
    return N(ast.unparse(node))


def fail(src, node, why):
    raise TranslateError('%s:%s: %s: %s' % (src, getattr(node, 'lineno', '?'), why,
                                            ast.unparse(node)[:140] if node is not None else ''))


def qlit(x):
    fr = Fraction(x)
    n, d = fr.numerator, fr.denominator
    return '(%d # %d)' % (n, d) if n >= 0 else '((%d) # %d)' % (n, d)


class Ex(object):
    """Typed expression translator."""

    def __init__(self, src, env):
        self.src, self.env = src, dict(env)

    def toT(self, tv):
        t, v = tv
        if t == 'T':
            return v
        if t == 'Z':
            return '(of_Z %s)' % v
        fail(self.src, None, 'cannot use a value of type %s as a number: %s' % (t, v))

    def idx(self, vec, node):
        """v[k]"""
        k = node
        if isinstance(k, ast.UnaryOp) and isinstance(k.op, ast.USub) and isinstance(k.operand, ast.Constant) \
                and isinstance(k.operand.value, int):
            return ('T', '(nth (length %s - %d) %s nzero)' % (vec, k.operand.value, vec))
        if isinstance(k, ast.Constant) and isinstance(k.value, int) and not isinstance(k.value, bool):
            if k.value < 0:
                return ('T', '(nth (length %s - %d) %s nzero)' % (vec, -k.value, vec))
            return ('T', '(nth %d %s nzero)' % (k.value, vec))
        t, v = self.e(k)
        if t != 'Z':
            fail(self.src, node, 'subscript must be an integer')
        return ('T', '(nth (Z.to_nat %s) %s nzero)' % (v, vec))

    def e(self, n):
        if isinstance(n, ast.Constant):
            if isinstance(n.value, bool):
                return ('B', 'true' if n.value else 'false')
            if isinstance(n.value, int):
                return ('Z', '%d' % n.value if n.value >= 0 else '(%d)' % n.value)
            if isinstance(n.value, float):
                return ('T', '(of_Q %s)' % qlit(n.value))
            fail(self.src, n, 'constant')
        if isinstance(n, ast.Name):
            if n.id not in self.env:
                fail(self.src, n, 'unknown name')
            return self.env[n.id]
        if isinstance(n, ast.BinOp):
            a, b = self.e(n.left), self.e(n.right)
            if isinstance(n.op, ast.Div):
                return ('T', '(%s / %s)' % (self.toT(a), self.toT(b)))
            op = {ast.Add: '+', ast.Sub: '-', ast.Mult: '*'}.get(type(n.op))
            if op is None:
                fail(self.src, n, 'operator')
            if a[0] == 'Z' and b[0] == 'Z':
                return ('Z', '(%s %s %s)%%Z' % (a[1], op, b[1]))
            return ('T', '(%s %s %s)' % (self.toT(a), op, self.toT(b)))
        if isinstance(n, ast.UnaryOp):
            if isinstance(n.op, ast.USub):
                t, v = self.e(n.operand)
                return (t, '(- %s)%%Z' % v) if t == 'Z' else ('T', '(- %s)' % self.toT((t, v)))
            if isinstance(n.op, ast.Not):
                return ('B', '(negb %s)' % self.b(n.operand))
            fail(self.src, n, 'unary operator')
        if isinstance(n, ast.Subscript):
            if not isinstance(n.value, ast.Name) or self.env.get(n.value.id, ('?',))[0] != 'L':
                fail(self.src, n, 'subscript of a non-vector')
            return self.idx(self.env[n.value.id][1], n.slice)
        if isinstance(n, ast.Call) and isinstance(n.func, ast.Name):
            f = n.func.id
            if f == 'sum' and len(n.args) == 1 and isinstance(n.args[0], ast.List) and not n.keywords:
                parts = ['b2z %s' % self.b(x) for x in n.args[0].elts]
                return ('Z', '(' + ' + '.join(parts) + ')%Z')
            if f == 'float' and len(n.args) == 1 and not n.keywords:
                return ('T', self.toT(self.e(n.args[0])))
            if f == 'len' and len(n.args) == 1 and isinstance(n.args[0], ast.Name) \
                    and self.env.get(n.args[0].id, ('?',))[0] == 'L':
                return ('Z', '(Z.of_nat (length %s))' % self.env[n.args[0].id][1])
        fail(self.src, n, 'expression outside the grammar')

    def b(self, n):
        if isinstance(n, ast.BoolOp):
            op = ' && ' if isinstance(n.op, ast.And) else ' || '
            return '(' + op.join(self.b(v) for v in n.values) + ')'
        if isinstance(n, ast.UnaryOp) and isinstance(n.op, ast.Not):
            return '(negb %s)' % self.b(n.operand)
        if isinstance(n, ast.Compare) and len(n.ops) == 1:
            a, b_ = self.e(n.left), self.e(n.comparators[0])
            op = type(n.ops[0])
            if a[0] == 'Z' and b_[0] == 'Z':
                x, y = a[1], b_[1]
                return {ast.Eq: '(%s =? %s)%%Z' % (x, y), ast.NotEq: '(negb (%s =? %s)%%Z)' % (x, y),
                        ast.Lt: '(%s <? %s)%%Z' % (x, y), ast.LtE: '(%s <=? %s)%%Z' % (x, y),
                        ast.Gt: '(%s <? %s)%%Z' % (y, x), ast.GtE: '(%s <=? %s)%%Z' % (y, x)}.get(op) \
                    or fail(self.src, n, 'comparison')
            x, y = self.toT(a), self.toT(b_)
            return {ast.Eq: '(%s =? %s)' % (x, y), ast.NotEq: '(negb (%s =? %s))' % (x, y),
                    ast.Lt: '(%s <? %s)' % (x, y), ast.LtE: '(%s <=? %s)' % (x, y),
                    ast.Gt: '(%s <? %s)' % (y, x), ast.GtE: '(%s <=? %s)' % (y, x)}.get(op) \
                or fail(self.src, n, 'comparison')
        t, v = self.e(n)
        if t != 'B':
            fail(self.src, n, 'condition is not boolean')
        return v


# ------------------------------------------------------------------ helpers
def parse(rel):
    path = os.path.join(REPO, rel)
    with open(path) as fh:
        return ast.parse(fh.read(), path)


def find_func(tree, src, name, cls=None):
    body = tree.body
    if cls is not None:
        for n in body:
            if isinstance(n, ast.ClassDef) and n.name == cls:
                body = n.body
                break
        else:
            fail(src, None, 'class %s not found' % cls)
    for n in body:
        if isinstance(n, ast.FunctionDef) and n.name == name:
            return n
    fail(src, None, 'function %s not found' % name)


def find_for(fn, src, target_text):
    for n in ast.walk(fn):
        if isinstance(n, ast.For) and U(n.target) == N(target_text):
            return n
    fail(src, fn, 'loop over %s not found' % target_text)


def is_none_test(test, name):
    return (isinstance(test, ast.Compare) and len(test.ops) == 1 and isinstance(test.ops[0], ast.Is)
            and isinstance(test.left, ast.Name) and test.left.id == name
            and isinstance(test.comparators[0], ast.Constant) and test.comparators[0].value is None)


def append_arg(stmt, src, lst):
    """`lst.append(E)` -> E"""
    if (isinstance(stmt, ast.Expr) and isinstance(stmt.value, ast.Call) and isinstance(stmt.value.func, ast.Attribute)
            and stmt.value.func.attr == 'append' and ast.unparse(stmt.value.func.value) == lst
            and len(stmt.value.args) == 1 and not stmt.value.keywords):
        return stmt.value.args[0]
    fail(src, stmt, 'expected %s.append(...)' % lst)


def strip_doc(body):
    if body and isinstance(body[0], ast.Expr) and isinstance(body[0].value, ast.Constant) \
            and isinstance(body[0].value.value, str):
        return body[1:]
    return body


# --------------------------------------------------------------- extractors
def gen_ugrid(tree):
    fn = find_func(tree, SRC_G, 'uniform_grid_fromintv')
    loop = find_for(fn, SRC_G, '(n, xmin, xmax, on_bdry)')
    if ast.unparse(loop.iter) != 'zip(shape, intv_prod.min_pt, intv_prod.max_pt, nodes_on_bdry)':
        fail(SRC_G, loop, 'unexpected iteration')
    body = loop.body
    if len(body) != 2 or not isinstance(body[0], ast.Try) or not isinstance(body[1], ast.If):
        fail(SRC_G, loop, 'expected try-unpack followed by an if chain')
    if ast.unparse(body[0].body[0]).replace('(', '').replace(')', '') != 'bdry_l, bdry_r = on_bdry':
        fail(SRC_G, body[0], 'unexpected unpacking')
    ex = Ex(SRC_G, {'n': ('Z', 'n'), 'xmin': ('T', 'xmin'), 'xmax': ('T', 'xmax'),
                    'bdry_l': ('B', 'bdry_l'), 'bdry_r': ('B', 'bdry_r')})

    def pair(stmts):
        if len(stmts) != 2:
            fail(SRC_G, stmts[0], 'expected gmin.append; gmax.append')
        a = ex.toT(ex.e(append_arg(stmts[0], SRC_G, 'gmin')))
        b = ex.toT(ex.e(append_arg(stmts[1], SRC_G, 'gmax')))
        return '(%s, %s)' % (a, b)

    def chain(node):
        out = 'if %s then %s\n    else ' % (ex.b(node.test), pair(node.body))
        if len(node.orelse) == 1 and isinstance(node.orelse[0], ast.If):
            return out + chain(node.orelse[0])
        return out + pair(node.orelse)
    # the grid itself: np.linspace with both end points
    tail = [U(s) for s in fn.body if isinstance(s, ast.Assign) and 'linspace' in ast.unparse(s)]
    if tail != [N('coord_vecs = [np.linspace(mi, ma, num, endpoint=True, dtype=np.float64) '
                  'for (mi, ma, num) in zip(gmin, gmax, shape)]')]:
        fail(SRC_G, fn, 'grid is not np.linspace(gmin, gmax, n, endpoint=True)')
    return ('Definition gen_ugrid_limits (n : Z) (xmin xmax : T) (bdry_l bdry_r : bool) : T * T :=\n    %s.\n'
            % chain(body[1]))


def gen_uniform_partition(tree):
    fn = find_func(tree, SRC_P, 'uniform_partition')
    loop = find_for(fn, SRC_P, '(i, (xmin, xmax, n, dx, on_bdry))')
    body = loop.body
    txt = [ast.unparse(s) for s in body]
    if not (len(body) == 4 and txt[0] == 'num_params = sum((p is not None for p in (xmin, xmax, n, dx)))'
            and txt[1].startswith('if num_params < 3:\n    raise ValueError(')
            and isinstance(body[2], ast.Try) and ast.unparse(body[2].body[0]).replace('(', '').replace(')', '') == 'bdry_l, bdry_r = on_bdry'
            and isinstance(body[3], ast.If)):
        fail(SRC_P, loop, 'unexpected shape of the completion loop')
    ex = Ex(SRC_P, {'n': ('Z', 'n'), 'xmin': ('T', 'xmin'), 'xmax': ('T', 'xmax'), 'dx': ('T', 'dx'),
                    'bdry_l': ('B', 'bdry_l'), 'bdry_r': ('B', 'bdry_r')})
    node = body[3]
    order = []
    defs = []

    def assign(stmt, target):
        if not (isinstance(stmt, ast.Assign) and len(stmt.targets) == 1 and ast.unparse(stmt.targets[0]) == target):
            fail(SRC_P, stmt, 'expected an assignment to %s' % target)
        return ex.toT(ex.e(stmt.value))
    sig = '(xmin xmax : T) (n : Z) (dx : T) (bdry_l bdry_r : bool) : T'
    # branch 1: xmin is None
    if not is_none_test(node.test, 'xmin') or len(node.body) != 1:
        fail(SRC_P, node, 'first branch must be `xmin is None`')
    defs.append('Definition gen_complete_min %s :=\n    %s.\n' % (sig, assign(node.body[0], 'min_pt[i]')))
    node = node.orelse[0] if len(node.orelse) == 1 and isinstance(node.orelse[0], ast.If) else fail(SRC_P, node, 'chain')
    if not is_none_test(node.test, 'xmax') or len(node.body) != 1:
        fail(SRC_P, node, 'second branch must be `xmax is None`')
    defs.append('Definition gen_complete_max %s :=\n    %s.\n' % (sig, assign(node.body[0], 'max_pt[i]')))
    node = node.orelse[0] if len(node.orelse) == 1 and isinstance(node.orelse[0], ast.If) else fail(SRC_P, node, 'chain')
    if not is_none_test(node.test, 'n'):
        fail(SRC_P, node, 'third branch must be `n is None`')
    rest = [ast.unparse(s) for s in node.body[1:]]
    if not (len(rest) == 3 and rest[0] == 'n_round = int(round(n_calc))'
            and rest[1].startswith('if abs(n_calc - n_round) > 1e-05:\n    raise ValueError(')
            and rest[2] == 'shape[i] = n_round'):
        fail(SRC_P, node, 'unexpected rounding of the computed shape')
    defs.append('Definition gen_n_calc %s :=\n    %s.\n' % (sig, assign(node.body[0], 'n_calc')))
    node = node.orelse[0] if len(node.orelse) == 1 and isinstance(node.orelse[0], ast.If) else fail(SRC_P, node, 'chain')
    if not is_none_test(node.test, 'dx') or [ast.unparse(s) for s in node.body] != ['pass']:
        fail(SRC_P, node, 'fourth branch must be `dx is None: pass`')
    els = node.orelse
    if not (len(els) == 2 and ast.unparse(els[1]).startswith('if not np.isclose(xmax, xmax_calc):\n    raise ValueError(')):
        fail(SRC_P, node, 'unexpected consistency test')
    defs.append('Definition gen_xmax_calc %s :=\n    %s.\n' % (sig, assign(els[0], 'xmax_calc')))
    # what is handed on
    ret = ast.unparse(fn.body[-1])
    if ret != 'return uniform_partition_fromintv(IntervalProd(min_pt, max_pt), shape, nodes_on_bdry)':
        fail(SRC_P, fn.body[-1], 'unexpected return')
    return ''.join(defs)


def gen_fractions(tree):
    fn = find_func(tree, SRC_P, 'boundary_cell_fractions', 'RectPartition')
    loop = find_for(fn, SRC_P, '(ax, (cvec, bmin, bmax))')
    if ast.unparse(loop.iter) != 'enumerate(zip(self.grid.coord_vectors, self.set.min_pt, self.set.max_pt))':
        fail(SRC_P, loop, 'unexpected iteration')
    if len(loop.body) != 1 or not isinstance(loop.body[0], ast.If):
        fail(SRC_P, loop, 'expected one if statement')
    node = loop.body[0]
    if ast.unparse(node.test) != 'len(cvec) == 1':
        fail(SRC_P, node, 'expected the one-point test')
    ex = Ex(SRC_P, {'cvec': ('L', 'cvec'), 'bmin': ('T', 'bmin'), 'bmax': ('T', 'bmax')})
    one = append_arg(node.body[0], SRC_P, 'frac_list')
    if not (isinstance(one, ast.Tuple) and len(one.elts) == 2):
        fail(SRC_P, one, 'expected a pair')
    single = '(%s, %s)' % tuple(ex.toT(ex.e(x)) for x in one.elts)
    els = node.orelse
    if not (len(els) == 3 and ast.unparse(els[2]) == 'frac_list.append((left_frac, right_frac))'):
        fail(SRC_P, node, 'expected left_frac, right_frac, append')
    out = []
    for stmt, nm, arg in ((els[0], 'left_frac', 'bmin'), (els[1], 'right_frac', 'bmax')):
        if not (isinstance(stmt, ast.Assign) and ast.unparse(stmt.targets[0]) == nm):
            fail(SRC_P, stmt, 'expected %s = ...' % nm)
        out.append('Definition gen_%s (cvec : list T) (bmin bmax : T) : T :=\n    %s.\n'
                   % (nm, ex.toT(ex.e(stmt.value))))
    out.append('Definition gen_frac_single : T * T := %s.\n' % single)
    return ''.join(out)


def gen_boundaries(tree):
    fn = find_func(tree, SRC_P, '__init__', 'RectPartition')
    loop = find_for(fn, SRC_P, '(ax, vec)')
    txt = [ast.unparse(s) for s in loop.body]
    if not (len(txt) == 5 and ast.unparse(loop.iter) == 'enumerate(self.grid.coord_vectors)'
            and txt[0] == 'bdry = np.empty(len(vec) + 1)' and txt[4] == 'bdry_vecs.append(bdry)'):
        fail(SRC_P, loop, 'unexpected boundary loop')
    mid = loop.body[1]
    if not (isinstance(mid, ast.Assign) and ast.unparse(mid.targets[0]) == 'bdry[1:-1]'):
        fail(SRC_P, mid, 'expected bdry[1:-1] = ...')

    class ExV(Ex):
        """vector expression, read at entry i: vec[a:] -> vec[a + i], vec[:-k] -> vec[i]"""
        def e(self, n):
            if isinstance(n, ast.Subscript) and isinstance(n.value, ast.Name) and n.value.id == 'vec' \
                    and isinstance(n.slice, ast.Slice) and n.slice.step is None:
                lo = n.slice.lower
                if lo is None:
                    off = 0
                elif isinstance(lo, ast.Constant) and isinstance(lo.value, int) and lo.value >= 0:
                    off = lo.value
                else:
                    fail(self.src, n, 'slice start')
                return ('T', '(nth (%d + i) vec nzero)' % off)
            return Ex.e(self, n)
    ex = ExV(SRC_P, {})
    out = ['Definition gen_bdry_mid (vec : list T) (i : nat) : T :=\n    %s.\n' % ex.toT(ex.e(mid.value))]
    ends = {'self.min()[ax]': 'lo', 'self.max()[ax]': 'hi'}
    for stmt, tgt, nm in ((loop.body[2], 'bdry[0]', 'first'), (loop.body[3], 'bdry[-1]', 'last')):
        if not (isinstance(stmt, ast.Assign) and ast.unparse(stmt.targets[0]) == tgt
                and ast.unparse(stmt.value) in ends):
            fail(SRC_P, stmt, 'expected %s = self.min()[ax] | self.max()[ax]' % tgt)
        out.append('Definition gen_bdry_%s (lo hi : T) : T := %s.\n' % (nm, ends[ast.unparse(stmt.value)]))
    return ''.join(out)


def gen_index(tree):
    fn = find_func(tree, SRC_P, 'index', 'RectPartition')
    loop = find_for(fn, SRC_P, '(val, cell_bdry_vec)')
    if ast.unparse(loop.iter) != 'zip(value, self.cell_boundary_vecs)':
        fail(SRC_P, loop, 'unexpected iteration')
    if not (len(loop.body) == 2 and ast.unparse(loop.body[0]) == 'ind = np.searchsorted(cell_bdry_vec, val)'
            and isinstance(loop.body[1], ast.If) and ast.unparse(loop.body[1].test) == 'floating'):
        fail(SRC_P, loop, 'expected searchsorted followed by `if floating`')
    # value must be an element of the set
    pre = [ast.unparse(s) for s in strip_doc(fn.body)]
    if pre[0] != 'value = np.atleast_1d(self.set.element(value))':
        fail(SRC_P, fn, 'index() no longer casts the value to the set')

    def block(stmts, env, want):
        ex = Ex(SRC_P, env)
        s = stmts[0]
        if isinstance(s, ast.If):
            if len(stmts) != 1:
                fail(SRC_P, s, 'statements after if')
            return '(if %s\n     then %s\n     else %s)' % (ex.b(s.test), block(s.body, env, want), block(s.orelse, env, want))
        if isinstance(s, ast.Assign) and len(s.targets) == 1 and isinstance(s.targets[0], ast.Name):
            t, v = ex.e(s.value)
            env2 = dict(env)
            env2[s.targets[0].id] = (t, s.targets[0].id)
            return '(let %s := %s in %s)' % (s.targets[0].id, v, block(stmts[1:], env2, want))
        arg = append_arg(s, SRC_P, 'result')
        if len(stmts) != 1:
            fail(SRC_P, s, 'statements after append')
        tv = ex.e(arg)
        if want == 'Z':
            if tv[0] != 'Z':
                fail(SRC_P, arg, 'integer index expected')
            return tv[1]
        return ex.toT(tv)
    env = {'cell_bdry_vec': ('L', 'cell_bdry_vec'), 'val': ('T', 'val'), 'ind': ('Z', 'ind')}
    node = loop.body[1]
    return ('Definition gen_findex (cell_bdry_vec : list T) (ind : Z) (val : T) : T :=\n    %s.\n'
            'Definition gen_index (cell_bdry_vec : list T) (ind : Z) (val : T) : Z :=\n    %s.\n'
            % (block(node.body, env, 'T'), block(node.orelse, env, 'Z')))


def gen_bounds(tree):
    fn = find_func(tree, SRC_N, 'normalized_index_expression')
    loop = find_for(fn, SRC_N, '((i, idx), n)')
    if ast.unparse(loop.iter) != 'zip(enumerate(indices), shape)':
        fail(SRC_N, loop, 'unexpected iteration')
    if not (len(loop.body) == 1 and isinstance(loop.body[0], ast.If)
            and ast.unparse(loop.body[0].test) == 'np.isscalar(idx)' and not loop.body[0].orelse):
        fail(SRC_N, loop, 'expected `if np.isscalar(idx)`')
    b = loop.body[0].body
    ex = Ex(SRC_N, {'idx': ('Z', 'idx'), 'n': ('Z', 'n')})
    if not (len(b) == 3 and all(isinstance(s, ast.If) and not s.orelse for s in b)):
        fail(SRC_N, loop.body[0], 'expected wrap, bounds test, int_to_slice')
    wrap, bound, conv = b
    if not (len(wrap.body) == 1 and isinstance(wrap.body[0], ast.AugAssign) and isinstance(wrap.body[0].op, ast.Add)
            and ast.unparse(wrap.body[0].target) == 'idx'):
        fail(SRC_N, wrap, 'expected idx += ...')
    w = 'Definition gen_wrap (idx n : Z) : Z :=\n  if %s then (idx + %s)%%Z else idx.\n' % (
        ex.b(wrap.test), ex.e(wrap.body[0].value)[1])
    if not (len(bound.body) == 1 and isinstance(bound.body[0], ast.Raise)
            and ast.unparse(bound.body[0].exc).startswith('IndexError(')):
        fail(SRC_N, bound, 'expected raise IndexError')
    o = 'Definition gen_out_of_bounds (idx n : Z) : bool :=\n  %s.\n' % ex.b(bound.test)
    if not (ast.unparse(conv.test) == 'int_to_slice' and len(conv.body) == 1
            and isinstance(conv.body[0], ast.Assign) and ast.unparse(conv.body[0].targets[0]) == 'indices[i]'
            and isinstance(conv.body[0].value, ast.Call) and ast.unparse(conv.body[0].value.func) == 'slice'
            and len(conv.body[0].value.args) == 2):
        fail(SRC_N, conv, 'expected indices[i] = slice(a, b)')
    a, c = (ex.e(x) for x in conv.body[0].value.args)
    if a[0] != 'Z' or c[0] != 'Z':
        fail(SRC_N, conv, 'slice bounds must be integers')
    s = 'Definition gen_int_slice (idx : Z) : Z * Z := (%s, %s).\n' % (a[1], c[1])
    return w + o + s


def translate():
    tp, tg, tn = parse(SRC_P), parse(SRC_G), parse(SRC_N)
    out = ['(* GENERATED by translate/partition.py from %s, %s, %s -- do not edit *)' % (SRC_P, SRC_G, SRC_N),
           'From Coq Require Import ZArith QArith List Bool.',
           'From Verif Require Import Base.Num.',
           'Import ListNotations.',
           'Local Open Scope num_scope.',
           '',
           'Definition b2z (b : bool) : Z := if b then 1%Z else 0%Z.',
           '',
           'Section Gen.',
           'Context {T : Type} `{Num T}.',
           '',
           '(* odl/discr/grid.py: uniform_grid_fromintv *)',
           gen_ugrid(tg),
           '(* odl/discr/partition.py: uniform_partition, branches tested in this order:',
           '   xmin is None / xmax is None / n is None / dx is None (pass) / all given (consistency) *)',
           gen_uniform_partition(tp),
           '(* RectPartition.boundary_cell_fractions *)',
           gen_fractions(tp),
           '(* RectPartition.__init__: entry 1 + i of the boundary vector, and its two ends *)',
           gen_boundaries(tp),
           '(* RectPartition.index, after ind = np.searchsorted(cell_bdry_vec, val) *)',
           gen_index(tp),
           'End Gen.',
           '',
           '(* odl/util/normalize.py: normalized_index_expression, integer entries *)',
           gen_bounds(tn)]
    return '\n'.join(out) + '\n'


if __name__ == '__main__':
    print(translate())
