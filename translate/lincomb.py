"""Fail-closed translator: odl/space/npy_tensors.py:_lincomb_impl  ->  coq/Gen/Lincomb.v

What is regenerated from the current source on every run:
  * THRESHOLD_SMALL, THRESHOLD_MEDIUM (module constants, int literals)
  * the regime dispatch  (two `if` tests over size / is_floating_dtype / _blas_is_applicable)
  * the body of the direct regime (one assignment out.data[:] = E, or an if/elif/else over the scalars
    with one such assignment per branch)
  * the bodies of the nested fallback_axpy / fallback_scal / fallback_copy
  * the rule choosing the ravel order of the BLAS regime
  * the alias-and-scalar decision tree (the last statement of the function)
  * _blas_is_applicable and _BLAS_DTYPES are *pinned* (compared with the text this
    translator was written against; any change fails closed) and emitted as fixed Gallina.

Grammar accepted for the tree (anything else raises TranslateError):
  stmt  := scal(SC, ARR, size) | axpy(ARR, ARR, size, SC) | copy(ARR, ARR, size)
         | ARR[:] = INT | _lincomb_impl(SC, OP, SC, OP, OP)
         | if COND: stmt+ [elif COND: stmt+]* [else: stmt+]
  COND  := OP is OP | OP is not OP | SC == SC | SC != SC | COND and COND | COND or COND | not COND
  SC    := a | b | SC + SC | -SC | INT          OP := x1 | x2 | out       ARR := x1_arr | x2_arr | out_arr
Grammar for the fallback bodies:
  pstmt := P op= (P | scalar) | P[...] = P[...] | if scalar (!=|==) INT: pstmt+ ; final `return P`
"""
import ast
import os
import re

from harness.common import TranslateError, REPO

SRC = 'odl/space/npy_tensors.py'

OPND = {'x1': 'X1', 'x2': 'X2', 'out': 'OUT'}
ARR = {'x1_arr': 'X1', 'x2_arr': 'X2', 'out_arr': 'OUT'}

PIN_BLAS_DTYPES = "(np.dtype('float32'), np.dtype('float64'), np.dtype('complex64'), np.dtype('complex128'))"

PIN_FALLBACK_BIND = [
    'axpy, scal, copy = (fallback_axpy, fallback_scal, fallback_copy)',
    'x1_arr = x1.data', 'x2_arr = x2.data', 'out_arr = out.data']
PIN_BLAS_BIND = [
    'x1_arr = x1.data.ravel(order=ravel_order)',
    'x2_arr = x2.data.ravel(order=ravel_order)',
    'out_arr = out.data.ravel(order=ravel_order)',
    "axpy, scal, copy = scipy.linalg.blas.get_blas_funcs(['axpy', 'scal', 'copy'], arrays=(x1_arr, x2_arr, out_arr))"]


def fail(node, why):
    raise TranslateError('%s:%s: %s: %s' % (SRC, getattr(node, 'lineno', '?'), why,
                                            ast.unparse(node)[:160] if node is not None else ''))


def strip_doc(body):
    if body and isinstance(body[0], ast.Expr) and isinstance(body[0].value, ast.Constant) \
            and isinstance(body[0].value.value, str):
        return body[1:]
    return body


def same(node, text):
    return ast.dump(node) == ast.dump(ast.parse(text).body[0])


def zlit(k):
    return '%d' % k if k >= 0 else '(%d)' % k


def const_int(node):
    if isinstance(node, ast.Constant) and isinstance(node.value, int) and not isinstance(node.value, bool):
        return node.value
    if isinstance(node, ast.UnaryOp) and isinstance(node.op, ast.USub):
        return -const_int(node.operand)
    fail(node, 'expected an integer literal')


# ------------------------------------------------------------------ scalars / conditions
def sc(node):
    if isinstance(node, ast.Name) and node.id in ('a', 'b'):
        return 'SA' if node.id == 'a' else 'SB'
    if isinstance(node, ast.BinOp) and isinstance(node.op, ast.Add):
        return '(SAdd %s %s)' % (sc(node.left), sc(node.right))
    if isinstance(node, ast.UnaryOp) and isinstance(node.op, ast.USub) and not isinstance(node.operand, ast.Constant):
        return '(SNeg %s)' % sc(node.operand)
    if isinstance(node, (ast.Constant, ast.UnaryOp)):
        return '(SK %s)' % zlit(const_int(node))
    fail(node, 'scalar expression outside grammar')


def opnd(node, table=OPND):
    if isinstance(node, ast.Name) and node.id in table:
        return table[node.id]
    fail(node, 'expected one of %s' % sorted(table))


def cond(node):
    if isinstance(node, ast.BoolOp):
        k = 'CAnd' if isinstance(node.op, ast.And) else 'COr'
        vals = [cond(v) for v in node.values]
        out = vals[-1]
        for v in reversed(vals[:-1]):
            out = '(%s %s %s)' % (k, v, out)
        return out
    if isinstance(node, ast.UnaryOp) and isinstance(node.op, ast.Not):
        return '(CNot %s)' % cond(node.operand)
    if isinstance(node, ast.Compare) and len(node.ops) == 1 and len(node.comparators) == 1:
        op, l, r = node.ops[0], node.left, node.comparators[0]
        if isinstance(op, ast.Is):
            return '(CIs %s %s)' % (opnd(l), opnd(r))
        if isinstance(op, ast.IsNot):
            return '(CNot (CIs %s %s))' % (opnd(l), opnd(r))
        if isinstance(op, ast.Eq):
            return '(CEq %s %s)' % (sc(l), sc(r))
        if isinstance(op, ast.NotEq):
            return '(CNe %s %s)' % (sc(l), sc(r))
    fail(node, 'condition outside grammar')


# ------------------------------------------------------------------ the decision tree
def stmts(body, ind):
    return '[' + (';\n' + ' ' * ind).join(stmt(s, ind + 1) for s in body) + ']'


def stmt(node, ind):
    if isinstance(node, ast.If):
        return ('If %s\n%s%s\n%s%s' % (cond(node.test), ' ' * ind, stmts(node.body, ind),
                                      ' ' * ind, stmts(node.orelse, ind)))
    if isinstance(node, ast.Assign) and len(node.targets) == 1:
        t = node.targets[0]
        if (isinstance(t, ast.Subscript) and isinstance(t.slice, ast.Slice)
                and t.slice.lower is None and t.slice.upper is None and t.slice.step is None):
            return 'Fill %s %s' % (opnd(t.value, ARR), zlit(const_int(node.value)))
        fail(node, 'assignment outside grammar')
    if isinstance(node, ast.Expr) and isinstance(node.value, ast.Call) and isinstance(node.value.func, ast.Name) \
            and not node.value.keywords:
        f, args = node.value.func.id, node.value.args

        def size(n):
            if not (isinstance(n, ast.Name) and n.id == 'size'):
                fail(n, 'expected `size`')
        if f == 'scal' and len(args) == 3:
            size(args[2])
            return 'Scal %s %s' % (sc(args[0]), opnd(args[1], ARR))
        if f == 'axpy' and len(args) == 4:
            size(args[2])
            return 'Axpy %s %s %s' % (opnd(args[0], ARR), opnd(args[1], ARR), sc(args[3]))
        if f == 'copy' and len(args) == 3:
            size(args[2])
            return 'Copy %s %s' % (opnd(args[0], ARR), opnd(args[1], ARR))
        if f == '_lincomb_impl' and len(args) == 5:
            return 'Recurse %s %s %s %s %s' % (sc(args[0]), opnd(args[1]), sc(args[2]), opnd(args[3]),
                                               opnd(args[4]))
    fail(node, 'statement outside grammar')


# ------------------------------------------------------------------ direct expression
def vexpr(node):
    if isinstance(node, ast.BinOp):
        for k, v in ((ast.Add, 'VAdd'), (ast.Sub, 'VSub'), (ast.Mult, 'VMul'), (ast.Div, 'VDiv')):
            if isinstance(node.op, k):
                return '(%s %s %s)' % (v, vexpr(node.left), vexpr(node.right))
        fail(node, 'operator outside grammar')
    if isinstance(node, ast.Attribute) and node.attr == 'data':
        return '(VV %s)' % opnd(node.value)
    if isinstance(node, (ast.Name, ast.Constant)):
        return '(VS %s)' % sc(node)
    fail(node, 'direct expression outside grammar')


def dstmt(node):
    """out.data[:] = VEXPR   |   if COND: dstmt elif ... else: dstmt   (one statement per branch)"""
    if isinstance(node, ast.Assign) and len(node.targets) == 1 and ast.unparse(node.targets[0]) == 'out.data[:]':
        return '(DAssign %s)' % vexpr(node.value)
    if isinstance(node, ast.If) and len(node.body) == 1 and len(node.orelse) == 1:
        return '(DIf %s %s %s)' % (cond(node.test), dstmt(node.body[0]), dstmt(node.orelse[0]))
    fail(node, 'direct-regime statement outside grammar')


# ------------------------------------------------------------------ regime tests
def rtest(node):
    """bool expression over  size < NAME,  is_floating_dtype(out.dtype),
    _blas_is_applicable(x1.data, x2.data, out.data)"""
    if isinstance(node, ast.BoolOp):
        k = ' && ' if isinstance(node.op, ast.And) else ' || '
        return '(' + k.join(rtest(v) for v in node.values) + ')'
    if isinstance(node, ast.UnaryOp) and isinstance(node.op, ast.Not):
        return '(negb %s)' % rtest(node.operand)
    if isinstance(node, ast.Compare) and len(node.ops) == 1 and isinstance(node.left, ast.Name) \
            and node.left.id == 'size' and isinstance(node.comparators[0], ast.Name) \
            and node.comparators[0].id in ('THRESHOLD_SMALL', 'THRESHOLD_MEDIUM'):
        ops = {ast.Lt: '<?', ast.LtE: '<=?', ast.Gt: '>?', ast.GtE: '>=?'}
        for k, v in ops.items():
            if isinstance(node.ops[0], k):
                return '(size %s %s)' % (v, node.comparators[0].id.lower())
        fail(node, 'comparison outside grammar')
    if isinstance(node, ast.Call):
        txt = ast.unparse(node)
        if txt == 'is_floating_dtype(out.dtype)':
            return 'floating'
        if txt == '_blas_is_applicable(x1.data, x2.data, out.data)':
            return 'blas_ok'
    fail(node, 'regime test outside grammar')


# ------------------------------------------------------------------ fallback bodies
def fallback(fn, roles):
    """roles: list over positional parameters of 'P1' | 'P2' | 'S' | 'N'"""
    names = [a.arg for a in fn.args.args]
    if (len(names) != len(roles) or fn.args.vararg or fn.args.kwarg or fn.args.kwonlyargs
            or fn.args.defaults or fn.decorator_list):
        fail(fn, 'signature of %s changed' % fn.name)
    role = dict(zip(names, roles))

    def arr(n):
        if isinstance(n, ast.Name) and role.get(n.id) in ('P1', 'P2'):
            return role[n.id]
        fail(n, 'expected an array parameter')

    def arg(n):
        if isinstance(n, ast.Name) and role.get(n.id) == 'S':
            return 'PScal'
        return '(PArr %s)' % arr(n)

    def ell(n):
        if not (isinstance(n, ast.Subscript) and isinstance(n.slice, ast.Constant) and n.slice.value is Ellipsis):
            fail(n, 'expected P[...]')
        return arr(n.value)

    def ps(n):
        if isinstance(n, ast.AugAssign):
            ops = {ast.Add: 'AugAdd', ast.Sub: 'AugSub', ast.Mult: 'AugMul', ast.Div: 'AugDiv'}
            for k, v in ops.items():
                if isinstance(n.op, k):
                    return 'PAug %s %s %s' % (v, arr(n.target), arg(n.value))
            fail(n, 'augmented operator outside grammar')
        if isinstance(n, ast.Assign) and len(n.targets) == 1:
            return 'PAssign %s %s' % (ell(n.targets[0]), ell(n.value))
        if isinstance(n, ast.If) and not n.orelse and isinstance(n.test, ast.Compare) \
                and len(n.test.ops) == 1 and isinstance(n.test.left, ast.Name) \
                and role.get(n.test.left.id) == 'S':
            k = const_int(n.test.comparators[0])
            if isinstance(n.test.ops[0], ast.NotEq):
                c = '(PScalNe %s)' % zlit(k)
            elif isinstance(n.test.ops[0], ast.Eq):
                c = '(PScalEq %s)' % zlit(k)
            else:
                fail(n, 'scalar test outside grammar')
            return 'PIf %s [%s]' % (c, '; '.join(ps(s) for s in n.body))
        fail(n, 'fallback statement outside grammar')

    body = strip_doc(fn.body)
    if not body or not isinstance(body[-1], ast.Return):
        fail(fn, '%s must end in return' % fn.name)
    arr(body[-1].value)          # returns one of its array parameters (value unused by the tree)
    return '[' + '; '.join(ps(s) for s in body[:-1]) + ']'


# ------------------------------------------------------------------ _blas_is_applicable
GEN_ATOMS = {
    'x.dtype != args[0].dtype for x in args[1:]': ('any', '(negb same_dtype)'),
    'x.dtype not in _BLAS_DTYPES for x in args': ('any', '(negb (native_blas d))'),
    'x.dtype in _BLAS_DTYPES for x in args': ('all', '(native_blas d)'),
    "x.size > np.iinfo('int32').max for x in args": ('any', '(size >? 2147483647)'),
}
FLAG_GENS = {'x.flags.f_contiguous for x in args': 'snd', 'x.flags.c_contiguous for x in args': 'fst'}


def btest(node):
    """bool expression of _blas_is_applicable over (same_dtype, blas_dtype, size, flags)"""
    if isinstance(node, ast.BoolOp):
        k = ' && ' if isinstance(node.op, ast.And) else ' || '
        return '(' + k.join(btest(v) for v in node.values) + ')'
    if isinstance(node, ast.UnaryOp) and isinstance(node.op, ast.Not):
        return '(negb %s)' % btest(node.operand)
    if isinstance(node, ast.Call) and isinstance(node.func, ast.Name) and node.func.id in ('any', 'all') \
            and len(node.args) == 1 and isinstance(node.args[0], ast.GeneratorExp) and not node.keywords:
        g = ast.unparse(node.args[0]).strip('()')
        if g in FLAG_GENS:
            return '(%s %s flags)' % ('forallb' if node.func.id == 'all' else 'existsb', FLAG_GENS[g])
        m = re.match(r"^x\.dtype\.char (not in|in) '([A-Za-z?]+)' for x in args$", g)
        if m and ((m.group(1) == 'not in') == (node.func.id == 'any')):
            # a test on the type code only (it cannot see the byte order)
            codes = '[%s]' % '; '.join(str(ord(ch)) for ch in m.group(2))
            return '(negb (dt_char_in d %s))' % codes if m.group(1) == 'not in' else '(dt_char_in d %s)' % codes
        if g in GEN_ATOMS and GEN_ATOMS[g][0] == node.func.id:
            # the per-array tests are uniform for arrays of one tensor space (same dtype, same size)
            return GEN_ATOMS[g][1]
    fail(node, 'test of _blas_is_applicable outside grammar')


def blas_chain(body):
    if len(body) != 1 or not isinstance(body[0], ast.If):
        fail(body[0] if body else None, '_blas_is_applicable: expected one if/elif chain')
    node, out = body[0], []

    def ret(stmts):
        if len(stmts) == 1 and isinstance(stmts[0], ast.Return) and isinstance(stmts[0].value, ast.Constant) \
                and isinstance(stmts[0].value.value, bool):
            return 'true' if stmts[0].value.value else 'false'
        fail(stmts[0] if stmts else None, 'expected return True/False')
    txt = ''
    while True:
        txt += 'if %s then %s else ' % (btest(node.test), ret(node.body))
        if len(node.orelse) == 1 and isinstance(node.orelse[0], ast.If):
            node = node.orelse[0]
            continue
        txt += ret(node.orelse)
        return txt


def translate(repo=None):
    repo = repo or REPO
    src = open(os.path.join(repo, SRC)).read()
    tree = ast.parse(src)
    consts, fns = {}, {}
    for node in tree.body:
        if isinstance(node, ast.Assign) and len(node.targets) == 1 and isinstance(node.targets[0], ast.Name):
            nm = node.targets[0].id
            if nm in ('THRESHOLD_SMALL', 'THRESHOLD_MEDIUM'):
                consts[nm] = const_int(node.value)
            if nm == '_BLAS_DTYPES':
                if ast.dump(node.value) != ast.dump(ast.parse(PIN_BLAS_DTYPES).body[0].value):
                    fail(node, '_BLAS_DTYPES changed (pinned)')
                consts[nm] = True
        if isinstance(node, ast.FunctionDef) and node.name in ('_lincomb_impl', '_blas_is_applicable'):
            fns[node.name] = node
    if len(consts) != 3 or len(fns) != 2:
        fail(None, 'thresholds, _BLAS_DTYPES, _lincomb_impl or _blas_is_applicable not found')

    # ---- _blas_is_applicable: translated (if/elif chain of tests over the argument arrays)
    bf = fns['_blas_is_applicable']
    if ast.unparse(bf.args) != '*args':
        fail(bf, '_blas_is_applicable signature changed')
    blas_app = blas_chain(strip_doc(bf.body))

    fn = fns['_lincomb_impl']
    if [a.arg for a in fn.args.args] != ['a', 'x1', 'b', 'x2', 'out'] or fn.args.defaults:
        fail(fn, 'signature changed')
    body = strip_doc(fn.body)
    if len(body) != 4:
        fail(fn, '_lincomb_impl has %d top-level statements, expected 4' % len(body))
    if not same(body[0], 'import scipy.linalg'):
        fail(body[0], 'expected import scipy.linalg')
    size_forms = {'size = native(x1.size)': 'SzTotal', 'size = x1.size': 'SzTotal', 'size = int(x1.size)': 'SzTotal',
                  'size = len(x1)': 'SzAxis0', 'size = native(len(x1))': 'SzAxis0', 'size = x1.shape[0]': 'SzAxis0',
                  'size = native(x1.shape[0])': 'SzAxis0'}
    size_expr = size_forms.get(ast.unparse(body[1]))
    if size_expr is None:
        fail(body[1], 'expected size = native(x1.size) (or len(x1) / x1.shape[0])')

    # ---- regime dispatch
    r = body[2]
    if not (isinstance(r, ast.If) and len(r.body) == 2 and isinstance(r.body[1], ast.Return)
            and r.body[1].value is None and len(r.orelse) == 1 and isinstance(r.orelse[0], ast.If)):
        fail(r, 'regime dispatch shape changed')
    test_direct = rtest(r.test)
    direct = dstmt(r.body[0])
    r2 = r.orelse[0]
    test_fallback = rtest(r2.test)
    fb = [s for s in r2.body]
    if len(fb) != 3 + len(PIN_FALLBACK_BIND) or not all(isinstance(s, ast.FunctionDef) for s in fb[:3]) \
            or [s.name for s in fb[:3]] != ['fallback_axpy', 'fallback_scal', 'fallback_copy']:
        fail(r2, 'fallback block shape changed')
    # roles follow the positional BLAS calling convention used by the tree:
    #   axpy(x, y, n, a)   scal(a, x, n)   copy(x, y, n)
    f_axpy = fallback(fb[0], ['P1', 'P2', 'N', 'S'])
    f_scal = fallback(fb[1], ['S', 'P1', 'N'])
    f_copy = fallback(fb[2], ['P1', 'P2', 'N'])
    for s, want in zip(fb[3:], PIN_FALLBACK_BIND):
        if not same(s, want):
            fail(s, 'fallback binding changed (expected %r)' % want)
    bl = r2.orelse
    if len(bl) != 1 + len(PIN_BLAS_BIND):
        fail(r2, 'BLAS block shape changed')
    ro = bl[0]
    if not (isinstance(ro, ast.If) and ast.unparse(ro.test) == 'out.data.flags.f_contiguous'
            and len(ro.body) == 1 and len(ro.orelse) == 1
            and ast.unparse(ro.body[0]) in ("ravel_order = 'F'", "ravel_order = 'C'")
            and ast.unparse(ro.orelse[0]) in ("ravel_order = 'F'", "ravel_order = 'C'")):
        fail(ro, 'ravel-order rule changed')
    o_then = 'OrdF' if "'F'" in ast.unparse(ro.body[0]) else 'OrdC'
    o_else = 'OrdF' if "'F'" in ast.unparse(ro.orelse[0]) else 'OrdC'
    for s, want in zip(bl[1:], PIN_BLAS_BIND):
        if not same(s, want):
            fail(s, 'BLAS binding changed (expected %r)' % want)

    # ---- the tree
    t = body[3]
    if not isinstance(t, ast.If):
        fail(t, 'expected the alias decision tree')
    tree_txt = stmts([t], 2)

    o = ['(* GENERATED by translate/lincomb.py from %s -- do not edit *)' % SRC,
         'From Coq Require Import ZArith List Bool.',
         'From Verif Require Import C01.Syntax.',
         'Import ListNotations.', 'Local Open Scope Z_scope.', '',
         'Definition threshold_small : Z := %d.' % consts['THRESHOLD_SMALL'],
         'Definition threshold_medium : Z := %d.' % consts['THRESHOLD_MEDIUM'], '',
         '(* `size`: the number of entries x1.size (SzTotal) or len(x1), the length of axis 0 (SzAxis0) *)',
         'Definition size_expr : sizex := %s.' % size_expr, '',
         '(* which of the three bodies runs; [floating] = is_floating_dtype(out.dtype),',
         '   [blas_ok] = _blas_is_applicable(x1.data, x2.data, out.data) *)',
         'Definition regime_of (size : Z) (floating blas_ok : bool) : regime :=',
         '  if %s then Direct' % test_direct,
         '  else if %s then Fallback' % test_fallback,
         '  else Blas.', '',
         '(* body of the direct regime *)',
         'Definition direct_body : dstmt := %s.' % direct, '',
         'Definition fallback_axpy : list pstmt := %s.' % f_axpy,
         'Definition fallback_scal : list pstmt := %s.' % f_scal,
         'Definition fallback_copy : list pstmt := %s.' % f_copy, '',
         'Definition blas_ravel_order (out_f_contiguous : bool) : order :=',
         '  if out_f_contiguous then %s else %s.' % (o_then, o_else), '',
         '(* _blas_is_applicable for the three arrays (x1, x2, out) of one tensor space:',
         '   same_dtype = all dtypes equal; d = (type code, native byte order) of the dtype; native_blas d = dtype in',
         '   _BLAS_DTYPES (pinned table: native float32/64, complex64/128);',
         '   flags = (c_contiguous, f_contiguous) per array *)',
         'Definition blas_applicable (same_dtype : bool) (d : dtinfo) (size : Z) (flags : list (bool * bool)) : bool :=',
         '  %s.' % blas_app, '',
         'Definition alias_tree : list stmt :=',
         '  ' + tree_txt + '.', '']
    return '\n'.join(o) + '\n'


if __name__ == '__main__':
    print(translate())
