"""Regenerates coq/Gen/C20Tables.v from the code under test:

* the dtype predicates and maps that TensorSpace.__init__/astype/_astype/real_space/
  complex_space consult (odl.util: is_numeric_dtype, is_real_dtype, is_floating_dtype,
  is_complex_floating_dtype, TYPE_MAP_R2C, TYPE_MAP_C2R), evaluated on the dtype
  enumeration of C20/Syntax.v, and np.can_cast(float64, d) (weighting-array check);
* the *field tables* of every paired __eq__/__hash__: which attributes (and how) each
  __hash__ feeds to hash() -- read from the source AST.  The model's hash keys must hash
  no more than what __eq__ compares; C20/Proofs.v re-checks that over the regenerated table.

Fail closed: anything outside the small grammar raises TranslateError."""
import ast
import os

from harness.common import TranslateError, REPO

DT = [('bool', 'DBool'), ('int8', 'DInt8'), ('int16', 'DInt16'), ('int32', 'DInt32'), ('int64', 'DInt64'),
      ('uint8', 'DUInt8'), ('uint16', 'DUInt16'), ('uint32', 'DUInt32'), ('uint64', 'DUInt64'),
      ('float16', 'DFloat16'), ('float32', 'DFloat32'), ('float64', 'DFloat64'),
      ('complex64', 'DComplex64'), ('complex128', 'DComplex128'), ('U1', 'DStr'), ('O', 'DObj')]


def _coq_of_dtype(dt):
    import numpy as np
    if dt is None:
        return None
    dt = np.dtype(dt)
    for name, c in DT:
        if np.dtype(name) == dt:
            return c
    raise TranslateError('dtype %r outside the enumeration' % (dt,))


def _bool_fn(name, f):
    import numpy as np
    rows = ['  | %s => %s' % (c, 'true' if f(np.dtype(n)) else 'false') for n, c in DT]
    return 'Definition %s (d : dtype) : bool :=\n  match d with\n%s\n  end.\n' % (name, '\n'.join(rows))


def _opt_fn(name, f):
    import numpy as np
    rows = []
    for n, c in DT:
        r = _coq_of_dtype(f(np.dtype(n)))
        rows.append('  | %s => %s' % (c, 'Some %s' % r if r else 'None'))
    return 'Definition %s (d : dtype) : option dtype :=\n  match d with\n%s\n  end.\n' % (name, '\n'.join(rows))


# ------------------------------------------------------------------ hash field tables
HASH_SITES = [
    # (file, class, coq name)
    ('odl/set/sets.py', 'EmptySet', 'hf_EmptySet'), ('odl/set/sets.py', 'UniversalSet', 'hf_UniversalSet'),
    ('odl/set/sets.py', 'Strings', 'hf_Strings'), ('odl/set/sets.py', 'ComplexNumbers', 'hf_ComplexNumbers'),
    ('odl/set/sets.py', 'RealNumbers', 'hf_RealNumbers'), ('odl/set/sets.py', 'Integers', 'hf_Integers'),
    ('odl/set/sets.py', 'CartesianProduct', 'hf_CartesianProduct'), ('odl/set/sets.py', 'SetUnion', 'hf_SetUnion'),
    ('odl/set/sets.py', 'SetIntersection', 'hf_SetIntersection'), ('odl/set/sets.py', 'FiniteSet', 'hf_FiniteSet'),
    ('odl/set/domain.py', 'IntervalProd', 'hf_IntervalProd'), ('odl/discr/grid.py', 'RectGrid', 'hf_RectGrid'),
    ('odl/discr/partition.py', 'RectPartition', 'hf_RectPartition'),
    ('odl/space/base_tensors.py', 'TensorSpace', 'hf_TensorSpace'),
    ('odl/space/npy_tensors.py', 'NumpyTensorSpace', 'hf_NumpyTensorSpace'),
    ('odl/discr/discr_space.py', 'DiscretizedSpace', 'hf_DiscretizedSpace'),
    ('odl/space/pspace.py', 'ProductSpace', 'hf_ProductSpace'),
    ('odl/space/weighting.py', 'Weighting', 'hf_Weighting'), ('odl/space/weighting.py', 'ConstWeighting', 'hf_ConstWeighting'),
    ('odl/space/weighting.py', 'ArrayWeighting', 'hf_ArrayWeighting'),
    ('odl/space/weighting.py', 'MatrixWeighting', 'hf_MatrixWeighting'),
    ('odl/space/weighting.py', 'CustomInner', 'hf_CustomInner'), ('odl/space/weighting.py', 'CustomNorm', 'hf_CustomNorm'),
    ('odl/space/weighting.py', 'CustomDist', 'hf_CustomDist'),
]
OPTIONAL_SITES = [('odl/space/npy_tensors.py', 'NumpyTensorSpaceArrayWeighting', 'hf_NpyArrayWeighting')]


def _find_method(tree, cls, meth):
    for node in tree.body:
        if isinstance(node, ast.ClassDef) and node.name == cls:
            for it in node.body:
                if isinstance(it, ast.FunctionDef) and it.name == meth:
                    return it
            return None
    raise TranslateError('class %s not found' % cls)


def _hash_item(e, cls):
    """One element of the hashed tuple -> Gallina constructor of C20/HashTab.v:hitem."""
    src = ast.unparse(e)
    if src == 'type(self)':
        return 'HType'
    if isinstance(e, ast.Name):                      # a fixed class object, e.g. Weighting
        return 'HClass'
    if src == 'super(%s, self).__hash__()' % cls:
        return 'HSuper'
    if isinstance(e, ast.Attribute) and isinstance(e.value, ast.Name) and e.value.id == 'self':
        return '(HAttr "%s")' % e.attr
    if (isinstance(e, ast.Call) and isinstance(e.func, ast.Name) and e.func.id in ('tuple', 'frozenset')
            and len(e.args) == 1 and isinstance(e.args[0], ast.Attribute)
            and isinstance(e.args[0].value, ast.Name) and e.args[0].value.id == 'self'):
        return '(%s "%s")' % ('HTupleOf' if e.func.id == 'tuple' else 'HSetOf', e.args[0].attr)
    if (isinstance(e, ast.Call) and isinstance(e.func, ast.Attribute) and e.func.attr == 'tobytes' and not e.args
            and isinstance(e.func.value, ast.Attribute) and isinstance(e.func.value.value, ast.Name)
            and e.func.value.value.id == 'self'):
        return '(HBytes "%s")' % e.func.value.attr
    if isinstance(e, ast.Name) and False:
        pass
    raise TranslateError('%s.__hash__: hashed item outside the grammar: %s' % (cls, src))


def _hash_fields(path, cls):
    with open(os.path.join(REPO, path)) as fh:
        tree = ast.parse(fh.read())
    m = _find_method(tree, cls, '__hash__')
    if m is None:
        return None
    body = [s for s in m.body if not (isinstance(s, ast.Expr) and isinstance(s.value, ast.Constant))]
    env = {}
    # optional single assignment  name = tuple(<genexp over self.attr>)  (RectGrid)
    if len(body) == 2 and isinstance(body[0], ast.Assign) and len(body[0].targets) == 1 \
            and isinstance(body[0].targets[0], ast.Name):
        src = ast.unparse(body[0].value)
        if src == 'tuple(((cv + 0.0).tobytes() for cv in self.coord_vectors))':
            env[body[0].targets[0].id] = '(HBytesEachPlusZero "coord_vectors")'
        elif src == 'tuple((cv.tobytes() for cv in self.coord_vectors))':
            env[body[0].targets[0].id] = '(HBytesEach "coord_vectors")'
        else:
            raise TranslateError('%s.__hash__: assignment outside the grammar: %s' % (cls, src))
        body = body[1:]
    if len(body) != 1 or not isinstance(body[0], ast.Return):
        raise TranslateError('%s.__hash__: body is not a single return' % cls)
    r = body[0].value
    if not (isinstance(r, ast.Call) and isinstance(r.func, ast.Name) and r.func.id == 'hash' and len(r.args) == 1):
        raise TranslateError('%s.__hash__: not `return hash(...)`' % cls)
    arg = r.args[0]
    items = arg.elts if isinstance(arg, ast.Tuple) else [arg]
    out = []
    for e in items:
        if isinstance(e, ast.Name) and e.id in env:
            out.append(env[e.id])
        else:
            out.append(_hash_item(e, cls))
    return out


def translate():
    import sys
    if REPO not in sys.path:
        sys.path.insert(0, REPO)
    import numpy as np
    from odl.util import utility as u
    out = ['(* GENERATED by translate/c20_tables.py from %s -- do not edit *)' % REPO,
           'From Coq Require Import ZArith List Bool String.',
           'From Verif Require Import C20.Syntax C20.HashTab.',
           'Import ListNotations.', 'Local Open Scope string_scope.', '']
    try:
        out.append(_bool_fn('is_numeric', u.is_numeric_dtype))
        out.append(_bool_fn('is_real_dt', u.is_real_dtype))
        out.append(_bool_fn('is_floating', u.is_floating_dtype))
        out.append(_bool_fn('is_complex_floating', u.is_complex_floating_dtype))
        out.append(_opt_fn('r2c', lambda d: u.TYPE_MAP_R2C.get(d, None)))
        out.append(_opt_fn('c2r', lambda d: u.TYPE_MAP_C2R.get(d, None)))
        out.append(_bool_fn('can_cast_from_f64', lambda d: np.can_cast(np.dtype('float64'), d)))
        from odl.space.npy_tensors import NumpyTensorSpace
        avail = [np.dtype(a).char for a in NumpyTensorSpace.available_dtypes()]
        out.append(_bool_fn('is_available', lambda d: d.char in avail))
    except AttributeError as e:
        raise TranslateError('odl.util lacks an expected predicate/map: %s' % e)
    for path, cls, name in HASH_SITES + OPTIONAL_SITES:
        f = _hash_fields(path, cls)
        if f is None:
            if (path, cls, name) in OPTIONAL_SITES:
                out.append('Definition %s : option (list hitem) := None.\n' % name)
                continue
            raise TranslateError('%s has no __hash__' % cls)
        if (path, cls, name) in OPTIONAL_SITES:
            out.append('Definition %s : option (list hitem) := Some [%s].\n' % (name, '; '.join(f)))
        else:
            out.append('Definition %s : list hitem := [%s].\n' % (name, '; '.join(f)))
    return '\n'.join(out)
