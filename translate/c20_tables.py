"""Regenerates coq/Gen/C20Tables.v from the code under test:

* the dtype predicates and maps that TensorSpace.__init__/astype/_astype/real_space/
  complex_space consult (odl.util: is_numeric_dtype, is_real_dtype, is_floating_dtype,
  is_complex_floating_dtype, TYPE_MAP_R2C, TYPE_MAP_C2R), evaluated on the dtype
  enumeration of C20/Syntax.v, and np.can_cast(float64, d) (weighting-array check);
* the *field tables* of every paired __eq__/__hash__: which attributes (and how) each
  __hash__ feeds to hash() -- read from the source AST.  The model's hash keys must hash
  no more than what __eq__ compares; C20/Proofs.v re-checks that over the regenerated table.

Fail closed: anything outside the small grammar raises TranslateError."""
import ast
import os

from harness.common import TranslateError, REPO

DT = [('bool', 'DBool'), ('int8', 'DInt8'), ('int16', 'DInt16'), ('int32', 'DInt32'), ('int64', 'DInt64'),
      ('uint8', 'DUInt8'), ('uint16', 'DUInt16'), ('uint32', 'DUInt32'), ('uint64', 'DUInt64'),
      ('float16', 'DFloat16'), ('float32', 'DFloat32'), ('float64', 'DFloat64'),
      ('complex64', 'DComplex64'), ('complex128', 'DComplex128'), ('U1', 'DStr'), ('O', 'DObj')]


def _coq_of_dtype(dt):
    import numpy as np
    if dt is None:
        return None
    dt = np.dtype(dt)
    for name, c in DT:
        if np.dtype(name) == dt:
            return c
    raise TranslateError('dtype %r outside the enumeration' % (dt,))


def _bool_fn(name, f):
    import numpy as np
    rows = ['  | %s => %s' % (c, 'true' if f(np.dtype(n)) else 'false') for n, c in DT]
    return 'Definition %s (d : dtype) : bool :=\n  match d with\n%s\n  end.\n' % (name, '\n'.join(rows))


def _opt_fn(name, f):
    import numpy as np
    rows = []
    for n, c in DT:
        r = _coq_of_dtype(f(np.dtype(n)))
        rows.append('  | %s => %s' % (c, 'Some %s' % r if r else 'None'))
    return 'Definition %s (d : dtype) : option dtype :=\n  match d with\n%s\n  end.\n' % (name, '\n'.join(rows))


# ------------------------------------------------------------------ hash field tables
HASH_SITES = [
    # (file, class, coq name)
    ('odl/set/sets.py', 'EmptySet', 'hf_EmptySet'), ('odl/set/sets.py', 'UniversalSet', 'hf_UniversalSet'),
    ('odl/set/sets.py', 'Strings', 'hf_Strings'), ('odl/set/sets.py', 'ComplexNumbers', 'hf_ComplexNumbers'),
    ('odl/set/sets.py', 'RealNumbers', 'hf_RealNumbers'), ('odl/set/sets.py', 'Integers', 'hf_Integers'),
    ('odl/set/sets.py', 'CartesianProduct', 'hf_CartesianProduct'), ('odl/set/sets.py', 'SetUnion', 'hf_SetUnion'),
    ('odl/set/sets.py', 'SetIntersection', 'hf_SetIntersection'), ('odl/set/sets.py', 'FiniteSet', 'hf_FiniteSet'),
    ('odl/set/domain.py', 'IntervalProd', 'hf_IntervalProd'), ('odl/discr/grid.py', 'RectGrid', 'hf_RectGrid'),
    ('odl/discr/partition.py', 'RectPartition', 'hf_RectPartition'),
    ('odl/space/base_tensors.py', 'TensorSpace', 'hf_TensorSpace'),
    ('odl/space/npy_tensors.py', 'NumpyTensorSpace', 'hf_NumpyTensorSpace'),
    ('odl/discr/discr_space.py', 'DiscretizedSpace', 'hf_DiscretizedSpace'),
    ('odl/space/pspace.py', 'ProductSpace', 'hf_ProductSpace'),
    ('odl/space/weighting.py', 'Weighting', 'hf_Weighting'), ('odl/space/weighting.py', 'ConstWeighting', 'hf_ConstWeighting'),
    ('odl/space/weighting.py', 'ArrayWeighting', 'hf_ArrayWeighting'),
    ('odl/space/weighting.py', 'MatrixWeighting', 'hf_MatrixWeighting'),
    ('odl/space/weighting.py', 'CustomInner', 'hf_CustomInner'), ('odl/space/weighting.py', 'CustomNorm', 'hf_CustomNorm'),
    ('odl/space/weighting.py', 'CustomDist', 'hf_CustomDist'),
]
OPTIONAL_SITES = [('odl/space/npy_tensors.py', 'NumpyTensorSpaceArrayWeighting', 'hf_NpyArrayWeighting')]


def _find_method(tree, cls, meth):
    for node in tree.body:
        if isinstance(node, ast.ClassDef) and node.name == cls:
            for it in node.body:
                if isinstance(it, ast.FunctionDef) and it.name == meth:
                    return it
            return None
    raise TranslateError('class %s not found' % cls)


def _hash_item(e, cls):
    """One element of the hashed tuple -> Gallina constructor of C20/HashTab.v:hitem."""
    src = ast.unparse(e)
    if src == 'type(self)':
        return 'HType'
    if isinstance(e, ast.Name):                      # a fixed class object, e.g. Weighting
        return 'HClass'
    if src == 'super(%s, self).__hash__()' % cls:
        return 'HSuper'
    if isinstance(e, ast.Attribute) and isinstance(e.value, ast.Name) and e.value.id == 'self':
        return '(HAttr "%s")' % e.attr
    if (isinstance(e, ast.Call) and isinstance(e.func, ast.Name) and e.func.id in ('tuple', 'frozenset')
            and len(e.args) == 1 and isinstance(e.args[0], ast.Attribute)
            and isinstance(e.args[0].value, ast.Name) and e.args[0].value.id == 'self'):
        return '(%s "%s")' % ('HTupleOf' if e.func.id == 'tuple' else 'HSetOf', e.args[0].attr)
    if (isinstance(e, ast.Call) and isinstance(e.func, ast.Attribute) and e.func.attr == 'tobytes' and not e.args
            and isinstance(e.func.value, ast.Attribute) and isinstance(e.func.value.value, ast.Name)
            and e.func.value.value.id == 'self'):
        return '(HBytes "%s")' % e.func.value.attr
    if isinstance(e, ast.Name) and False:
        pass
    raise TranslateError('%s.__hash__: hashed item outside the grammar: %s' % (cls, src))


def _hash_fields(path, cls):
    with open(os.path.join(REPO, path)) as fh:
        tree = ast.parse(fh.read())
    m = _find_method(tree, cls, '__hash__')
    if m is None:
        return None
    body = [s for s in m.body if not (isinstance(s, ast.Expr) and isinstance(s.value, ast.Constant))]
    env = {}
    # optional single assignment  name = tuple(<genexp over self.attr>)  (RectGrid)
    if len(body) == 2 and isinstance(body[0], ast.Assign) and len(body[0].targets) == 1 \
            and isinstance(body[0].targets[0], ast.Name):
        src = ast.unparse(body[0].value)
        if src == 'tuple(((cv + 0.0).tobytes() for cv in self.coord_vectors))':
            env[body[0].targets[0].id] = '(HBytesEachPlusZero "coord_vectors")'
        elif src == 'tuple((cv.tobytes() for cv in self.coord_vectors))':
            env[body[0].targets[0].id] = '(HBytesEach "coord_vectors")'
        else:
            raise TranslateError('%s.__hash__: assignment outside the grammar: %s' % (cls, src))
        body = body[1:]
    if len(body) != 1 or not isinstance(body[0], ast.Return):
        raise TranslateError('%s.__hash__: body is not a single return' % cls)
    r = body[0].value
    if not (isinstance(r, ast.Call) and isinstance(r.func, ast.Name) and r.func.id == 'hash' and len(r.args) == 1):
        raise TranslateError('%s.__hash__: not `return hash(...)`' % cls)
    arg = r.args[0]
    items = arg.elts if isinstance(arg, ast.Tuple) else [arg]
    out = []
    for e in items:
        if isinstance(e, ast.Name) and e.id in env:
            out.append(env[e.id])
        else:
            out.append(_hash_item(e, cls))
    return out


# ------------------------------------------------------------------ __eq__ / __contains__ tables
EQ_SITES = [
    ('odl/set/sets.py', 'EmptySet', 'eq_EmptySet'), ('odl/set/sets.py', 'UniversalSet', 'eq_UniversalSet'),
    ('odl/set/sets.py', 'Strings', 'eq_Strings'), ('odl/set/sets.py', 'ComplexNumbers', 'eq_ComplexNumbers'),
    ('odl/set/sets.py', 'RealNumbers', 'eq_RealNumbers'), ('odl/set/sets.py', 'Integers', 'eq_Integers'),
    ('odl/set/sets.py', 'CartesianProduct', 'eq_CartesianProduct'), ('odl/set/sets.py', 'SetUnion', 'eq_SetUnion'),
    ('odl/set/sets.py', 'SetIntersection', 'eq_SetIntersection'), ('odl/set/sets.py', 'FiniteSet', 'eq_FiniteSet'),
    ('odl/set/domain.py', 'IntervalProd', 'eq_IntervalProd'), ('odl/discr/grid.py', 'RectGrid', 'eq_RectGrid'),
    ('odl/discr/partition.py', 'RectPartition', 'eq_RectPartition'),
    ('odl/space/base_tensors.py', 'TensorSpace', 'eq_TensorSpace'),
    ('odl/space/npy_tensors.py', 'NumpyTensorSpace', 'eq_NumpyTensorSpace'),
    ('odl/discr/discr_space.py', 'DiscretizedSpace', 'eq_DiscretizedSpace'),
    ('odl/space/pspace.py', 'ProductSpace', 'eq_ProductSpace'),
    ('odl/space/weighting.py', 'Weighting', 'eq_Weighting'), ('odl/space/weighting.py', 'ConstWeighting', 'eq_ConstWeighting'),
    ('odl/space/weighting.py', 'ArrayWeighting', 'eq_ArrayWeighting'),
    ('odl/space/weighting.py', 'MatrixWeighting', 'eq_MatrixWeighting'),
    ('odl/space/weighting.py', 'CustomInner', 'eq_CustomInner'), ('odl/space/weighting.py', 'CustomNorm', 'eq_CustomNorm'),
    ('odl/space/weighting.py', 'CustomDist', 'eq_CustomDist'),
]
# classes that must NOT define their own __eq__ (they inherit the one modelled)
NO_EQ = [('odl/space/npy_tensors.py', c) for c in
         ('NumpyTensorSpaceArrayWeighting', 'NumpyTensorSpaceConstWeighting', 'NumpyTensorSpaceCustomInner',
          'NumpyTensorSpaceCustomNorm', 'NumpyTensorSpaceCustomDist')] + \
        [('odl/space/pspace.py', c) for c in
         ('ProductSpaceArrayWeighting', 'ProductSpaceConstWeighting', 'ProductSpaceCustomInner',
          'ProductSpaceCustomNorm', 'ProductSpaceCustomDist')]
CONTAINS_SITES = [('odl/set/space.py', 'LinearSpace', 'contains_LinearSpace'),
                  ('odl/space/base_tensors.py', 'TensorSpace', 'contains_TensorSpace')]
NO_CONTAINS = [('odl/space/npy_tensors.py', 'NumpyTensorSpace'), ('odl/discr/discr_space.py', 'DiscretizedSpace'),
               ('odl/space/pspace.py', 'ProductSpace')]


def _is_self_attr(e):
    return isinstance(e, ast.Attribute) and isinstance(e.value, ast.Name) and e.value.id == 'self'


def _is_other_attr(e):
    return isinstance(e, ast.Attribute) and isinstance(e.value, ast.Name) and e.value.id == 'other'


def _getattr_none(e):
    """getattr(other, 'a', None) -> 'a'"""
    if (isinstance(e, ast.Call) and isinstance(e.func, ast.Name) and e.func.id == 'getattr' and len(e.args) == 3
            and isinstance(e.args[0], ast.Name) and e.args[0].id == 'other'
            and isinstance(e.args[1], ast.Constant) and isinstance(e.args[1].value, str)
            and isinstance(e.args[2], ast.Constant) and e.args[2].value is None):
        return e.args[1].value
    return None


def _eq_atom(e, cls):
    """One conjunct of an __eq__ -> constructor of C20/EqTab.v:eatom (anything else: TranslateError)."""
    src = ast.unparse(e)
    if src in ('type(self) == type(other)', 'type(other) is type(self)', 'type(other) == type(self)',
               'type(self) is type(other)'):
        return 'ESameType'
    if (isinstance(e, ast.Call) and isinstance(e.func, ast.Name) and e.func.id == 'isinstance' and len(e.args) == 2
            and isinstance(e.args[0], ast.Name) and e.args[0].id == 'other' and isinstance(e.args[1], ast.Name)):
        return '(EIsInstance "%s")' % e.args[1].id
    if src == 'super(%s, self).__eq__(other)' % cls:
        return 'ESuper'
    if src == 'len(self) == len(other)':
        return 'ELenEq'
    if isinstance(e, ast.Compare) and len(e.ops) == 1 and len(e.comparators) == 1:
        l, r, op = e.left, e.comparators[0], e.ops[0]
        if isinstance(op, ast.Eq):
            if _is_self_attr(l) and _is_other_attr(r) and l.attr == r.attr:
                return '(EAttrEq "%s" true)' % l.attr          # self.a == other.a
            if _is_other_attr(l) and _is_self_attr(r) and l.attr == r.attr:
                return '(EAttrEq "%s" false)' % l.attr         # other.a == self.a
            if _is_self_attr(l) and _getattr_none(r) == l.attr:
                return '(EAttrEqGetattr "%s")' % l.attr        # self.a == getattr(other, 'a', None)
        if isinstance(op, ast.Is):
            if _is_self_attr(l) and _getattr_none(r) == l.attr:
                return '(EAttrIs "%s")' % l.attr               # self.a is getattr(other, 'a', None)
    m = _match_src(src, 'np.all(self.{a} == other.{a})')
    if m:
        return '(ENpAllEq "%s")' % m
    for pat in ('all((x == y for (x, y) in zip(self.{a}, other.{a})))', 'all((x == y for x, y in zip(self.{a}, other.{a})))'):
        m = _match_src(src, pat)
        if m:
            return '(EZipAllEq "%s")' % m
    for pat in ('all((np.array_equal(vec_s, vec_o) for (vec_s, vec_o) in zip(self.{a}, other.{a})))',
                'all((np.array_equal(vec_s, vec_o) for vec_s, vec_o in zip(self.{a}, other.{a})))'):
        m = _match_src(src, pat)
        if m:
            return '(EZipArrayEqual "%s")' % m
    m = _match_src(src, 'all((set_ in other.{a} for set_ in self.{a}))')
    if m:
        return '(EAllIn "%s" true)' % m                        # every item of self.a is in other.a
    m = _match_src(src, 'all((set_ in self.{a} for set_ in other.{a}))')
    if m:
        return '(EAllIn "%s" false)' % m
    if src == 'all((el in other for el in self))':
        return '(EAllInObj true)'
    if src == 'all((el in self for el in other))':
        return '(EAllInObj false)'
    raise TranslateError('%s.__eq__: conjunct outside the grammar: %s' % (cls, src))


def _match_src(src, pattern):
    import re
    rx = re.escape(pattern).replace(re.escape('{a}'), r'(?P<a>\w+)', 1).replace(re.escape('{a}'), r'(?P=a)')
    m = re.fullmatch(rx, src)
    return m.group('a') if m else None


def _class_tree(path):
    with open(os.path.join(REPO, path)) as fh:
        return ast.parse(fh.read())


def _strip_doc(body):
    return [s for s in body if not (isinstance(s, ast.Expr) and isinstance(s.value, ast.Constant))]


def _eq_table(path, cls):
    m = _find_method(_class_tree(path), cls, '__eq__')
    if m is None:
        raise TranslateError('%s has no __eq__' % cls)
    body = _strip_doc(m.body)
    shortcut, guards = False, []
    if len(body) == 2 and isinstance(body[0], ast.If):
        node = body[0]
        # if other is self: return True  [elif <guard>: return False]*
        if ast.unparse(node.test) != 'other is self' or ast.unparse(node.body[0]) != 'return True' or len(node.body) != 1:
            raise TranslateError('%s.__eq__: preamble outside the grammar: %s' % (cls, ast.unparse(node)[:100]))
        shortcut = True
        rest = node.orelse
        while rest:
            if len(rest) != 1 or not isinstance(rest[0], ast.If):
                raise TranslateError('%s.__eq__: preamble outside the grammar' % cls)
            g = rest[0]
            if len(g.body) != 1 or ast.unparse(g.body[0]) != 'return False':
                raise TranslateError('%s.__eq__: guard does not return False' % cls)
            t = ast.unparse(g.test)
            if t == 'other is None':
                guards.append('GNone')
            elif (isinstance(g.test, ast.UnaryOp) and isinstance(g.test.op, ast.Not)
                  and _eq_atom(g.test.operand, cls).startswith('(EIsInstance')):
                guards.append('(GNot %s)' % _eq_atom(g.test.operand, cls))
            else:
                raise TranslateError('%s.__eq__: guard outside the grammar: %s' % (cls, t))
            rest = g.orelse
        body = body[1:]
    # DiscretizedSpace spells the preamble as if / elif / else: return ...
    if len(body) == 1 and isinstance(body[0], ast.If) and not shortcut:
        node = body[0]
        if ast.unparse(node.test) == 'other is self' and ast.unparse(node.body[0]) == 'return True':
            shortcut = True
            rest = node.orelse
            while rest and isinstance(rest[0], ast.If):
                g = rest[0]
                t = ast.unparse(g.test)
                if len(g.body) != 1 or ast.unparse(g.body[0]) != 'return False':
                    raise TranslateError('%s.__eq__: guard does not return False' % cls)
                if t == 'other is None':
                    guards.append('GNone')
                else:
                    raise TranslateError('%s.__eq__: guard outside the grammar: %s' % (cls, t))
                rest = g.orelse
            body = rest
    if len(body) != 1 or not isinstance(body[0], ast.Return):
        raise TranslateError('%s.__eq__: body is not [preamble;] return <conjunction>' % cls)
    r = body[0].value
    conj = r.values if (isinstance(r, ast.BoolOp) and isinstance(r.op, ast.And)) else [r]
    atoms = [_eq_atom(c, cls) for c in conj]
    return ('{| eq_shortcut := %s; eq_guards := [%s]; eq_atoms := [%s] |}'
            % ('true' if shortcut else 'false', '; '.join(guards), '; '.join(atoms)))


def _contains_table(path, cls):
    m = _find_method(_class_tree(path), cls, '__contains__')
    if m is None:
        raise TranslateError('%s has no __contains__' % cls)
    body = _strip_doc(m.body)
    if len(body) == 1 and ast.unparse(body[0]) == "return getattr(other, 'space', None) == self":
        return 'CSpaceEqSelf'          # other.space == self (space first), False without a .space
    raise TranslateError('%s.__contains__ outside the grammar: %s' % (cls, ast.unparse(body[0])[:100] if body else ''))


def _eq_tables_text():
    out = []
    for path, cls, name in EQ_SITES:
        out.append('Definition %s : eqtab := %s.\n' % (name, _eq_table(path, cls)))
    for path, cls in NO_EQ:
        tree = _class_tree(path)
        if _find_method(tree, cls, '__eq__') is not None:
            raise TranslateError('%s defines its own __eq__ (the model assumes the inherited one)' % cls)
    for path, cls, name in CONTAINS_SITES:
        out.append('Definition %s : ctab := %s.\n' % (name, _contains_table(path, cls)))
    for path, cls in NO_CONTAINS:
        if _find_method(_class_tree(path), cls, '__contains__') is not None:
            raise TranslateError('%s defines its own __contains__ (the model assumes the inherited one)' % cls)
    return out


def translate():
    import sys
    if REPO not in sys.path:
        sys.path.insert(0, REPO)
    import numpy as np
    from odl.util import utility as u
    out = ['(* GENERATED by translate/c20_tables.py from %s -- do not edit *)' % REPO,
           'From Coq Require Import ZArith List Bool String.',
           'From Verif Require Import C20.Syntax C20.HashTab C20.EqTab.',
           'Import ListNotations.', 'Local Open Scope string_scope.', '']
    try:
        out.append(_bool_fn('is_numeric', u.is_numeric_dtype))
        out.append(_bool_fn('is_real_dt', u.is_real_dtype))
        out.append(_bool_fn('is_floating', u.is_floating_dtype))
        out.append(_bool_fn('is_complex_floating', u.is_complex_floating_dtype))
        out.append(_opt_fn('r2c', lambda d: u.TYPE_MAP_R2C.get(d, None)))
        out.append(_opt_fn('c2r', lambda d: u.TYPE_MAP_C2R.get(d, None)))
        out.append(_bool_fn('can_cast_from_f64', lambda d: np.can_cast(np.dtype('float64'), d)))
        from odl.space.npy_tensors import NumpyTensorSpace
        avail = [np.dtype(a).char for a in NumpyTensorSpace.available_dtypes()]
        out.append(_bool_fn('is_available', lambda d: d.char in avail))
    except AttributeError as e:
        raise TranslateError('odl.util lacks an expected predicate/map: %s' % e)
    for path, cls, name in HASH_SITES + OPTIONAL_SITES:
        f = _hash_fields(path, cls)
        if f is None:
            if (path, cls, name) in OPTIONAL_SITES:
                out.append('Definition %s : option (list hitem) := None.\n' % name)
                continue
            raise TranslateError('%s has no __hash__' % cls)
        if (path, cls, name) in OPTIONAL_SITES:
            out.append('Definition %s : option (list hitem) := Some [%s].\n' % (name, '; '.join(f)))
        else:
            out.append('Definition %s : list hitem := [%s].\n' % (name, '; '.join(f)))
    out.extend(_eq_tables_text())
    return '\n'.join(out)
