"""Fail-closed translator for C10:  `_call` bodies  ->  coq/Gen/ProxCalls.v

Every `_call` of odl/solvers/nonsmooth/proximal_operators.py (and `proj_l1`), the proximal classes of
IndicatorSimplex / IndicatorSumConstraint, the in-place and out-of-place bodies of the nine expression
classes of odl/operator/operator.py and of Scaling/Zero/Constant/MultiplyOperator are parsed with `ast`
and re-emitted as Gallina programs over the heap primitives of coq/C10/Prims.v -- WITH their `x is out`
tests, copies and temporaries.  The alias theorems of C10 are proved about these regenerated definitions.

Scheme: statements are translated in continuation-passing style; an `if` duplicates the rest of the body
into both branches, so every definition is a tree of tests whose leaves are straight-line programs
    let '(t, h1) := fresh .. h in let h2 := st1 .. h1 in ...
Tests on operator parameters become Gallina matches (`g is None` -> match on `option`, `np.isscalar(sigma)`
-> match on `sval`, bounds -> `bnd_is`), `x is out` becomes `ref_eqb x out`, data-dependent tests become
boolean tests on scalars read from the current heap.

Grammar (anything else raises TranslateError):
  stmt := NAME = REF | NAME = REF.copy() | NAME = REF - G | NAME = self.domain.element()
        | NAME = REF.ufuncs.(absolute|sign)() | NAME = SIG.multiply(VAL) | NAME = PointwiseNorm(self.domain, 2)[(REF)]
        | NAME = PW(REF) | NAME = SCALAR | NAME = np.infty | NAME = REF.asarray() | NAME = np.where(A <= S, S, S(A))
        | NAME = SPACE.element(ARR)
        | REF.ufuncs.(absolute|square|sqrt)(out=REF) | REF.ufuncs.(maximum|minimum)(SCALAR|BOUND, out=REF)
        | REF.ufuncs.divide(REF, out=REF) | REF.divide(REF|VAL, out=REF) | REF.multiply(REF, out=REF)
        | SIG.multiply(VAL, out=REF)
        | REF.lincomb(S, REF[, S, REF|G]) | REF.assign(REF|G) | REF.set_zero() | REF[:] = REF
        | REF (/=|-=|+=) SCALAR|SVAL | REF *= REF
        | proj_l1(REF, S, REF) | proj_simplex(REF, S, REF) | the zip loop over components | the Lambert-W block
        | if TEST: ... [elif/else] | with np.errstate(..): ... | return [out]
  operator.py / default_ops.py bodies: `if out is None: OOP else: IP` over child calls, element arithmetic,
  lincomb / multiply / assign / += / *=.
"""
import ast
import os

from harness.common import TranslateError, REPO

PROX_PY = 'odl/solvers/nonsmooth/proximal_operators.py'
FUNC_PY = 'odl/solvers/functional/default_functionals.py'
OPER_PY = 'odl/operator/operator.py'
DEFOP_PY = 'odl/operator/default_ops.py'


def fail(node, why):
    raise TranslateError('%s (line %s): %s' % (why, getattr(node, 'lineno', '?'),
                                               ast.unparse(node)[:200] if node is not None else ''))


def find_def(tree, path):
    """'proximal_l1.ProximalL1._call' -> FunctionDef"""
    node = tree
    for name in path.split('.'):
        for n in ast.walk(node):
            if n is not node and isinstance(n, (ast.FunctionDef, ast.ClassDef)) and n.name == name:
                node = n
                break
        else:
            raise TranslateError('cannot find %s in source' % path)
    return node


def strip_doc(body):
    if body and isinstance(body[0], ast.Expr) and isinstance(body[0].value, ast.Constant) and \
            isinstance(body[0].value.value, str):
        return body[1:]
    return body


NUM = {0: 'nzero', 1: 'one', 2: 'two', 4: 'four', 0.5: 'half'}


def numlit(v, node=None):
    if isinstance(v, bool) or v not in NUM:
        fail(node, 'numeric literal outside the table')
    return NUM[v]


class Env(object):
    """name -> (kind, coq text [, extra]).  kinds: ref T val sval oval bound bool inf pw arr eps fun"""

    def __init__(self, d=None):
        self.d = dict(d or {})

    def copy(self):
        return Env(self.d)

    def get(self, name):
        return self.d.get(name)

    def set(self, name, v):
        e = self.copy()
        e.d[name] = v
        return e

    def rebind_text(self, old_text, new):
        """every name bound to the parameter `old_text` now denotes `new` (inside a match branch)"""
        e = self.copy()
        for k, v in list(e.d.items()):
            if v[1] == old_text and v[0] in ('oval', 'sval'):
                e.d[k] = new
        return e


class G(object):
    """one definition being generated"""

    def __init__(self, name):
        self.name = name
        self.n = 0

    def fresh(self, base):
        self.n += 1
        return '%s%d' % (base, self.n)


def key(node):
    """lookup key of a Name or self.attr / dotted access"""
    if isinstance(node, ast.Name):
        return node.id
    if isinstance(node, ast.Attribute) and isinstance(node.value, ast.Name) and node.value.id == 'self':
        return 'self.' + node.attr
    return None


def kind(env, node):
    k = key(node)
    v = env.get(k) if k else None
    return v[0] if v else None


def txt(env, node):
    return env.get(key(node))[1]


# ------------------------------------------------------------------ scalars
def is_scalar(env, node):
    if isinstance(node, ast.Constant) and isinstance(node.value, (int, float)) and not isinstance(node.value, bool):
        return True
    if kind(env, node) == 'T':
        return True
    if isinstance(node, ast.BinOp) and isinstance(node.op, (ast.Add, ast.Sub, ast.Mult, ast.Div)):
        if isinstance(node.op, ast.Add) and isinstance(node.left, ast.Constant) and kind(env, node.right) == 'eps':
            return True
        return is_scalar(env, node.left) and is_scalar(env, node.right)
    if isinstance(node, ast.UnaryOp) and isinstance(node.op, ast.USub):
        return is_scalar(env, node.operand)
    if isinstance(node, ast.Call) and isinstance(node.func, ast.Attribute):
        f = node.func
        if f.attr == 'norm' and not node.args:
            return True
        if f.attr == 'sum' and isinstance(f.value, ast.Attribute) and f.value.attr == 'ufuncs':
            return True
    if isinstance(node, ast.Attribute) and node.attr == 'size' and kind(env, node.value) == 'ref':
        return True
    return False


def scalar(env, node, h):
    """Coq text of a T-valued expression; heap reads use the current heap h"""
    if isinstance(node, ast.Constant) and isinstance(node.value, (int, float)):
        return numlit(node.value, node)
    if kind(env, node) == 'T':
        return txt(env, node)
    if isinstance(node, ast.BinOp) and isinstance(node.op, (ast.Add, ast.Sub, ast.Mult, ast.Div)):
        if isinstance(node.op, ast.Add) and isinstance(node.left, ast.Constant) and node.left.value == 1 \
                and kind(env, node.right) == 'eps':
            return txt(env, node.right)                       # (1 + eps)
        o = {ast.Add: '+', ast.Sub: '-', ast.Mult: '*', ast.Div: '/'}[type(node.op)]
        return '(%s %s %s)' % (scalar(env, node.left, h), o, scalar(env, node.right, h))
    if isinstance(node, ast.UnaryOp) and isinstance(node.op, ast.USub):
        return '(- %s)' % scalar(env, node.operand, h)
    if isinstance(node, ast.Call) and isinstance(node.func, ast.Attribute):
        f = node.func
        if f.attr == 'norm' and not node.args and kind(env, f.value) == 'ref':
            w = env.get('%w')
            if w is None:
                fail(node, 'norm() in a class without a weight parameter')
            return '(norm2 %s (get %s %s))' % (w[1], h, txt(env, f.value))
        if f.attr == 'sum' and isinstance(f.value, ast.Attribute) and f.value.attr == 'ufuncs' \
                and kind(env, f.value.value) == 'ref' and not node.args:
            return '(sum_all (get %s %s))' % (h, txt(env, f.value.value))
    if isinstance(node, ast.Attribute) and node.attr == 'size' and kind(env, node.value) == 'ref':
        return '(nsize (get %s %s))' % (h, txt(env, node.value))
    fail(node, 'not a scalar expression')


# ------------------------------------------------ element values built from parameters
def val_names(env, node):
    return [n for n in ast.walk(node) if (isinstance(n, (ast.Name, ast.Attribute)) and kind(env, n) == 'val')]


def is_val(env, node):
    if kind(env, node) == 'val':
        return True
    if isinstance(node, ast.BinOp) and isinstance(node.op, (ast.Add, ast.Sub, ast.Mult, ast.Div)):
        l, r = node.left, node.right
        return (is_val(env, l) or is_scalar(env, l)) and (is_val(env, r) or is_scalar(env, r)) and \
            (is_val(env, l) or is_val(env, r))
    return False


def value(env, node):
    """element value computed from ONE element parameter and scalars:  e1 (fun s_ => ...) v"""
    if kind(env, node) == 'val':
        return txt(env, node)
    names = val_names(env, node)
    texts = set(txt(env, n) for n in names)
    if len(texts) != 1:
        fail(node, 'element expression over several element parameters')
    v = texts.pop()
    e2_ = env.copy()
    for k, b in list(e2_.d.items()):
        if b[0] == 'val' and b[1] == v:
            e2_.d[k] = ('T', 's_')
    return '(e1 (fun s_ => %s) %s)' % (scalar(e2_, node, '_'), v)


# ---------------------------------------------------------------- statements
UF1 = {'absolute': 'nabs', 'sign': 'nsign', 'sqrt': 'nsqrt'}


def is_none_test(env, t):
    """(name node, True if `is None`) for `X is None` / `X is not None` with X an optional parameter"""
    if isinstance(t, ast.Compare) and len(t.ops) == 1 and isinstance(t.ops[0], (ast.Is, ast.IsNot)) and \
            isinstance(t.comparators[0], ast.Constant) and t.comparators[0].value is None:
        return t.left, isinstance(t.ops[0], ast.Is)
    return None


def bound_bool(env, t):
    """boolean Gallina text for tests over bound parameters, or None"""
    nt = is_none_test(env, t)
    if nt and kind(env, nt[0]) == 'bound':
        b = '(bnd_is %s)' % txt(env, nt[0])
        return '(negb %s)' % b if nt[1] else b
    if isinstance(t, ast.BoolOp) and isinstance(t.op, ast.And):
        parts = [bound_bool(env, v) for v in t.values]
        if all(parts):
            return '(' + ' && '.join(parts) + ')'
    return None


class Body(object):
    """translator of one in-place body"""

    def __init__(self, g, final):
        self.g = g
        self.final = final            # final(env, h) -> text

    # -- helpers producing `let` text
    def let_h(self, prim, h, rest):
        h2 = self.g.fresh('h')
        return 'let %s := %s %s in\n  %s' % (h2, prim, h, rest(h2))

    def let_new(self, call, h, base, rest):
        r, h2 = self.g.fresh(base), self.g.fresh('h')
        return "let '(%s, %s) := %s %s in\n  %s" % (r, h2, call, h, rest(r, h2))

    def ref(self, env, node):
        if kind(env, node) != 'ref':
            fail(node, 'not an element reference')
        return txt(env, node)

    def block(self, stmts, env, h):
        if not stmts:
            return self.final(env, h)
        s, rest = stmts[0], stmts[1:]
        k = lambda env2, h2: self.block(rest, env2, h2)
        return self.stmt(s, env, h, k, rest)

    # -- one statement
    def stmt(self, s, env, h, k, rest):
        if isinstance(s, ast.Return):
            if s.value is not None and not (isinstance(s.value, ast.Name) and s.value.id == 'out'):
                fail(s, 'return of something else than out')
            return self.final(env, h)
        if isinstance(s, ast.Import) and ast.unparse(s) == 'import scipy.special':
            return k(env, h)
        if isinstance(s, ast.With):
            if ast.unparse(s.items[0].context_expr).startswith('np.errstate('):
                return self.block(list(s.body) + list(rest), env, h)
            fail(s, 'with-statement')
        if isinstance(s, ast.If):
            return self.if_(s, env, h, rest)
        if isinstance(s, ast.For):
            return self.for_(s, env, h, k)
        if isinstance(s, ast.Assign) and len(s.targets) == 1:
            t = s.targets[0]
            if isinstance(t, ast.Name):
                return self.assign(t.id, s.value, s, env, h, k, rest)
            if isinstance(t, ast.Subscript) and ast.unparse(t.slice) == ':' and kind(env, t.value) == 'ref' \
                    and kind(env, s.value) == 'ref':                                   # out[:] = x
                return self.let_h('st1 (fun a => a) %s %s' % (txt(env, s.value), txt(env, t.value)), h,
                                  lambda h2: k(env, h2))
            fail(s, 'assignment target')
        if isinstance(s, ast.AugAssign) and kind(env, s.target) == 'ref':
            r = txt(env, s.target)
            if kind(env, s.value) == 'ref' and isinstance(s.op, ast.Mult):                 # out *= v
                return self.let_h('st2 (e2 nmul) %s %s %s' % (r, txt(env, s.value), r), h, lambda h2: k(env, h2))
            sv = self.sval_expr(env, s.value, h)
            if sv is not None and isinstance(s.op, ast.Div):                                # denom /= self.sigma * lam
                return self.let_h('st1 (fun d => idiv_sval d %s) %s %s' % (sv, r, r), h, lambda h2: k(env, h2))
            if is_scalar(env, s.value):
                c = scalar(env, s.value, h)
                f = {ast.Div: 'scal (one / %s)' % c, ast.Sub: 'e1 (fun u => u - %s)' % c,
                     ast.Add: 'e1 (fun u => u + %s)' % c}.get(type(s.op))
                if f is None:
                    fail(s, 'augmented assignment operator')
                return self.let_h('st1 (%s) %s %s' % (f, r, r), h, lambda h2: k(env, h2))
            fail(s, 'augmented assignment')
        if isinstance(s, ast.Expr) and isinstance(s.value, ast.Call):
            return self.call(s.value, env, h, k)
        if isinstance(s, ast.Raise):
            fail(s, 'reachable raise')
        fail(s, 'statement outside the grammar')

    def sval_expr(self, env, node, h):
        if kind(env, node) == 'sval':
            return txt(env, node)
        if isinstance(node, ast.BinOp) and isinstance(node.op, ast.Mult) and kind(env, node.left) == 'sval' \
                and is_scalar(env, node.right):
            return '(sval_scale %s %s)' % (txt(env, node.left), scalar(env, node.right, h))
        return None

    # -- NAME = ...
    def assign(self, name, v, s, env, h, k, rest):
        src = ast.unparse(v)
        if name == 'dtype' and src.startswith('getattr(self.domain'):
            return k(env, h)
        if name == 'eps' and src == 'np.finfo(dtype).resolution * 10':
            if env.get('%e1p') is None:
                fail(s, 'eps in a class without the (1 + eps) parameter')
            return k(env.set('eps', ('eps', env.get('%e1p')[1])), h)
        if src == 'np.infty':
            return k(env.set(name, ('inf', 'inf')), h)
        kd = kind(env, v)
        if kd in ('ref', 'T', 'val', 'sval', 'oval', 'bound'):                       # alias
            return k(env.set(name, env.get(key(v))), h)
        if isinstance(v, ast.Call) and isinstance(v.func, ast.Attribute):
            f = v.func
            if f.attr == 'copy' and not v.args and kind(env, f.value) == 'ref':       # x.copy()
                return self.let_new('copy %s' % txt(env, f.value), h, name + '_',
                                    lambda r, h2: k(env.set(name, ('ref', r)), h2))
            if f.attr == 'element' and not v.args and ast.unparse(f.value) in ('self.domain', 'self.range'):
                return self.let_new('fresh (length %s)' % env.get('x')[1], h, name + '_',
                                    lambda r, h2: k(env.set(name, ('ref', r)), h2))
            if f.attr == 'element' and len(v.args) == 1 and kind(env, v.args[0]) == 'arr' and \
                    ast.unparse(f.value) in ('self.domain', 'self.domain[0]', 'x.space'):
                a = env.get(key(v.args[0]))
                return self.let_new('un_new (e1 (fun n_ => %s)) %s' % (a[2], a[1]), h, name + '_',
                                    lambda r, h2: k(env.set(name, ('ref', r)), h2))
            if isinstance(f.value, ast.Attribute) and f.value.attr == 'ufuncs' and f.attr in ('absolute', 'sign') \
                    and not v.args and not v.keywords and kind(env, f.value.value) == 'ref':
                return self.let_new('un_new (e1 %s) %s' % (UF1[f.attr], txt(env, f.value.value)), h, name + '_',
                                    lambda r, h2: k(env.set(name, ('ref', r)), h2))
            if f.attr == 'multiply' and len(v.args) == 1 and not v.keywords and kind(env, f.value) == 'val' \
                    and is_val(env, v.args[0]):                                       # tmp = sig.multiply(VAL)
                return self.let_new('const_new (e2 nmul %s %s) (length %s)'
                                    % (txt(env, f.value), value(env, v.args[0]), env.get('x')[1]), h, name + '_',
                                    lambda r, h2: k(env.set(name, ('ref', r)), h2))
            if f.attr == 'asarray' and not v.args and kind(env, f.value) == 'ref':
                return k(env.set(name, ('arr', txt(env, f.value), 'n_')), h)
        if isinstance(v, ast.Call):
            fs = ast.unparse(v.func)
            if fs == 'PointwiseNorm' and ast.unparse(v.args[0]) == 'self.domain' and \
                    (ast.unparse(v) in ('PointwiseNorm(self.domain, exponent=2)', 'PointwiseNorm(self.domain, 2)')):
                return k(env.set(name, ('pw', 'pw')), h)
            if (kind(env, v.func) == 'pw' or fs in ('PointwiseNorm(self.domain, 2)', 'PointwiseNorm(self.domain, exponent=2)')) \
                    and len(v.args) == 1 and kind(env, v.args[0]) == 'ref':
                return self.let_new('pwnorm_call %s' % txt(env, v.args[0]), h, name + '_',
                                    lambda r, h2: k(env.set(name, ('ref', r)), h2))
            if fs == 'np.where' and len(v.args) == 3:
                return k(env.set(name, self.where(env, v, h)), h)
            if fs == 'scipy.special.lambertw':
                return self.lambert(name, s, env, h, rest)
        if isinstance(v, ast.BinOp) and isinstance(v.op, ast.Sub) and kind(env, v.left) == 'ref' \
                and kind(env, v.right) == 'val':                                      # diff = x - g
            return self.let_new('sub_param %s %s' % (txt(env, v.left), txt(env, v.right)), h, name + '_',
                                lambda r, h2: k(env.set(name, ('ref', r)), h2))
        # (x - g).norm() * (1 + eps): evaluate the element subexpression first
        for sub in ast.walk(v):
            if isinstance(sub, ast.BinOp) and isinstance(sub.op, ast.Sub) and kind(env, sub.left) == 'ref' \
                    and kind(env, sub.right) == 'val':
                tmpname = self.g.fresh('d')
                # the subexpression occurs once: substitute a name for it in the source text
                v2 = ast.parse(ast.unparse(v).replace('(' + ast.unparse(sub) + ')', tmpname), mode='eval').body
                return self.let_new('sub_param %s %s' % (txt(env, sub.left), txt(env, sub.right)), h, tmpname + '_',
                                    lambda r, h2: self.assign(name, v2, s, env.set(tmpname, ('ref', r)), h2, k, rest))
        if is_scalar(env, v):
            c = self.g.fresh(name + '_')
            return 'let %s := %s in\n  %s' % (c, scalar(env, v, h), k(env.set(name, ('T', c)), h))
        fail(s, 'right-hand side outside the grammar')

    def where(self, env, v, h):
        c, a, b = v.args
        if not (isinstance(c, ast.Compare) and len(c.ops) == 1 and isinstance(c.ops[0], ast.LtE)
                and kind(env, c.left) == 'arr' and is_scalar(env, c.comparators[0])):
            fail(v, 'np.where condition')
        arr = env.get(key(c.left))
        e2_ = env.set(key(c.left), ('T', arr[2]))
        return ('arr', arr[1], '(if %s <=? %s then %s else %s)'
                % (arr[2], scalar(env, c.comparators[0], h), scalar(e2_, a, h), scalar(e2_, b, h)))

    def lambert(self, name, s, env, h, rest):
        """lambw = scipy.special.lambertw(<x, g, lam, sigma>); [if not ...: lambw = lambw.real]; lambw = x.space.element(lambw)
        -> one opaque element-wise function W of the current x, written to a NEW element"""
        used = {n.id for n in ast.walk(s.value) if isinstance(n, ast.Name)}
        if 'out' in used:
            fail(s, 'Lambert-W block reads out')
        i = 0
        while i < len(rest):
            r = rest[i]
            if isinstance(r, ast.If) and len(r.body) == 1 and ast.unparse(r.body[0]) == '%s = %s.real' % (name, name) \
                    and not r.orelse:
                i += 1
                continue
            break
        if not (i < len(rest) and ast.unparse(rest[i]) == '%s = x.space.element(%s)' % (name, name)):
            fail(s, 'Lambert-W block not closed by x.space.element')
        w = env.get('%W')
        if w is None:
            fail(s, 'Lambert-W in a class without the opaque function parameter')
        return self.let_new('un_new %s %s' % (w[1], env.get('x')[1]), h, name + '_',
                            lambda r, h2: self.block(rest[i + 1:], env.set(name, ('ref', r)), h2))

    # -- method calls with out=
    def call(self, c, env, h, k):
        src = ast.unparse(c.func)
        kw = {a.arg: a.value for a in c.keywords}
        if src == 'proj_l1':
            args = list(c.args) + [kw[n] for n in ('radius', 'out') if n in kw]
            if len(args) != 3:
                fail(c, 'proj_l1 arguments')
            return self.let_h('proj_l1 %s %s %s' % (scalar(env, args[1], h), self.ref(env, args[0]), self.ref(env, args[2])),
                              h, lambda h2: k(env, h2))
        if src == 'proj_simplex':
            args = list(c.args)
            if len(args) != 3:
                fail(c, 'proj_simplex arguments')
            return self.let_h('st1 (simplex_val %s) %s %s' % (scalar(env, args[1], h), self.ref(env, args[0]),
                                                              self.ref(env, args[2])), h, lambda h2: k(env, h2))
        if not isinstance(c.func, ast.Attribute):
            fail(c, 'call')
        f = c.func
        m = f.attr
        # REF.ufuncs.F(..., out=REF)
        if isinstance(f.value, ast.Attribute) and f.value.attr == 'ufuncs' and kind(env, f.value.value) == 'ref' \
                and set(kw) == {'out'}:
            a, o = txt(env, f.value.value), self.ref(env, kw['out'])
            if m in UF1 and not c.args:
                return self.let_h('st1 (e1 %s) %s %s' % (UF1[m], a, o), h, lambda h2: k(env, h2))
            if m == 'square' and not c.args:
                return self.let_h('st1 (e1 (fun u => u * u)) %s %s' % (a, o), h, lambda h2: k(env, h2))
            if m in ('maximum', 'minimum') and len(c.args) == 1:
                fn = 'nmax' if m == 'maximum' else 'nmin'
                if kind(env, c.args[0]) == 'bound':
                    return self.let_h('st1 (fun a => %s_bound a %s) %s %s' % (m[:3], txt(env, c.args[0]), a, o), h,
                                      lambda h2: k(env, h2))
                if is_scalar(env, c.args[0]):
                    return self.let_h('st1 (e1 (fun u => %s u %s)) %s %s' % (fn, scalar(env, c.args[0], h), a, o), h,
                                      lambda h2: k(env, h2))
            if m == 'divide' and len(c.args) == 1 and kind(env, c.args[0]) == 'ref':
                return self.let_h('st2 (e2 ndiv) %s %s %s' % (a, txt(env, c.args[0]), o), h, lambda h2: k(env, h2))
            fail(c, 'ufunc call')
        recv = f.value
        if m in ('divide', 'multiply') and len(c.args) == 1 and set(kw) == {'out'}:
            o = self.ref(env, kw['out'])
            opn = 'ndiv' if m == 'divide' else 'nmul'
            if kind(env, recv) == 'ref' and kind(env, c.args[0]) == 'ref':
                return self.let_h('st2 (e2 %s) %s %s %s' % (opn, txt(env, recv), txt(env, c.args[0]), o), h,
                                  lambda h2: k(env, h2))
            if kind(env, recv) == 'ref' and is_val(env, c.args[0]):
                return self.let_h('st1 (fun a => e2 %s a %s) %s %s' % (opn, value(env, c.args[0]), txt(env, recv), o), h,
                                  lambda h2: k(env, h2))
            if m == 'multiply' and kind(env, recv) == 'val' and is_val(env, c.args[0]):   # sig.multiply(VAL, out=out)
                return self.let_h('st0 (e2 nmul %s %s) %s' % (txt(env, recv), value(env, c.args[0]), o), h,
                                  lambda h2: k(env, h2))
            fail(c, 'divide/multiply operands')
        if kind(env, recv) != 'ref' or kw:
            fail(c, 'method call')
        o = txt(env, recv)
        if m == 'lincomb' and len(c.args) == 2 and kind(env, c.args[1]) == 'ref':
            return self.let_h('st1 (scal %s) %s %s' % (scalar(env, c.args[0], h), txt(env, c.args[1]), o), h,
                              lambda h2: k(env, h2))
        if m == 'lincomb' and len(c.args) == 4 and kind(env, c.args[1]) == 'ref':
            a, b = scalar(env, c.args[0], h), scalar(env, c.args[2], h)
            if kind(env, c.args[3]) == 'ref':
                return self.let_h('st2 (lin %s %s) %s %s %s' % (a, b, txt(env, c.args[1]), txt(env, c.args[3]), o), h,
                                  lambda h2: k(env, h2))
            if kind(env, c.args[3]) == 'val':
                return self.let_h('st1 (fun a => lin %s %s a %s) %s %s' % (a, b, txt(env, c.args[3]), txt(env, c.args[1]), o),
                                  h, lambda h2: k(env, h2))
        if m == 'assign' and len(c.args) == 1:
            if kind(env, c.args[0]) == 'ref':
                return self.let_h('st1 (fun a => a) %s %s' % (txt(env, c.args[0]), o), h, lambda h2: k(env, h2))
            if kind(env, c.args[0]) == 'val':
                return self.let_h('st0 %s %s' % (txt(env, c.args[0]), o), h, lambda h2: k(env, h2))
        if m == 'set_zero' and not c.args:
            # zeros of the SPACE's shape; x lives in the same space as out
            return self.let_h('st1 zeros_like %s %s' % (env.get('x0')[1], o), h, lambda h2: k(env, h2))
        fail(c, 'method call outside the grammar')

    # -- for out_i, src_i in zip(out, src): src_i.divide|multiply(d, out=out_i)
    def for_(self, s, env, h, k):
        ok = (isinstance(s.target, ast.Tuple) and len(s.target.elts) == 2 and isinstance(s.iter, ast.Call)
              and ast.unparse(s.iter.func) == 'zip' and len(s.iter.args) == 2 and len(s.body) == 1 and not s.orelse
              and isinstance(s.body[0], ast.Expr) and isinstance(s.body[0].value, ast.Call))
        if not ok:
            fail(s, 'loop')
        a, b = s.target.elts[0].id, s.target.elts[1].id
        c = s.body[0].value
        if not (isinstance(c.func, ast.Attribute) and c.func.attr in ('divide', 'multiply') and ast.unparse(c.func.value) == b
                and len(c.args) == 1 and kind(env, c.args[0]) == 'ref' and len(c.keywords) == 1
                and c.keywords[0].arg == 'out' and ast.unparse(c.keywords[0].value) == a):
            fail(s, 'loop body')
        opn = 'ndiv' if c.func.attr == 'divide' else 'nmul'
        return self.let_h('zip_loop %s %s %s %s' % (opn, self.ref(env, s.iter.args[0]), self.ref(env, s.iter.args[1]),
                                                    txt(env, c.args[0])), h, lambda h2: k(env, h2))

    # -- if / elif / else:  the rest of the body is duplicated into both branches
    def if_(self, s, env, h, rest):
        t = s.test
        A = lambda e: self.block(list(s.body) + list(rest), e, h)
        B = lambda e: self.block(list(s.orelse) + list(rest), e, h)
        ts = ast.unparse(t)
        # if g is None: lambw = lambertw(..) else: lambw = lambertw(.. g ..): one opaque function either way
        if len(s.body) == 1 and len(s.orelse) == 1 and all(
                isinstance(b, ast.Assign) and isinstance(b.value, ast.Call) and ast.unparse(b.value.func) == 'scipy.special.lambertw'
                for b in (s.body[0], s.orelse[0])) and ast.unparse(s.body[0].targets[0]) == ast.unparse(s.orelse[0].targets[0]):
            for b in (s.body[0], s.orelse[0]):
                if 'out' in {n.id for n in ast.walk(b.value) if isinstance(n, ast.Name)}:
                    fail(b, 'Lambert-W block reads out')
            return self.lambert(s.body[0].targets[0].id, s.body[0], env, h, rest)
        # x is out
        if isinstance(t, ast.Compare) and len(t.ops) == 1 and isinstance(t.ops[0], (ast.Is, ast.IsNot)) and \
                kind(env, t.left) == 'ref' and kind(env, t.comparators[0]) == 'ref':
            a, b = (A, B) if isinstance(t.ops[0], ast.Is) else (B, A)
            return '(if ref_eqb %s %s then\n  %s\n else\n  %s)' % (txt(env, t.left), txt(env, t.comparators[0]), a(env), b(env))
        if ts == 'out is None':                     # helper default of proj_l1: out is always supplied by the callers
            if [ast.unparse(b) for b in s.body] != ['out = x.space.element()'] or s.orelse:
                fail(s, 'out is None')
            return self.block(rest, env, h)
        nt = is_none_test(env, t)
        if nt and kind(env, nt[0]) == 'oval':
            p = txt(env, nt[0])
            some = env.rebind_text(p, ('val', p + 'v'))
            a, b = (B, A) if nt[1] else (A, B)       # a: Some-branch
            return '(match %s with\n | Some %sv =>\n  %s\n | None =>\n  %s\n end)' % (p, p, a(some), b(env))
        bb = bound_bool(env, t)
        if bb:
            return '(if %s then\n  %s\n else\n  %s)' % (bb, A(env), B(env))
        if isinstance(t, ast.Call) and ast.unparse(t.func) == 'np.isscalar' and kind(env, t.args[0]) == 'sval':
            p = txt(env, t.args[0])
            sc = env.rebind_text(p, ('T', p + 's'))
            el = env.rebind_text(p, ('val', p + 'v'))
            return '(match %s with\n | Sc %ss =>\n  %s\n | El %sv =>\n  %s\n end)' % (p, p, A(sc), p, B(el))
        if isinstance(t, ast.Compare) and len(t.ops) == 1 and isinstance(t.ops[0], ast.In) and \
                kind(env, t.left) == 'val' and ast.unparse(t.comparators[0]) == 'space':
            # `elif sig in space: ... else: raise`: an element-valued step is an element of the space
            if not (len(s.orelse) == 1 and isinstance(s.orelse[0], ast.Raise)):
                fail(s, 'membership test without raising else-branch')
            return A(env)
        if ts == 'isinstance(self.domain, ProductSpace)':
            p = env.get('%pspace')
            if p is None:
                fail(s, 'space kind test in a class without the pspace parameter')
            return '(if %s then\n  %s\n else\n  %s)' % (p[1], A(env), B(env))
        if isinstance(t, ast.Compare) and len(t.ops) == 1 and isinstance(t.ops[0], (ast.Lt, ast.LtE, ast.Gt, ast.GtE)):
            l, r = t.left, t.comparators[0]
            if kind(env, l) == 'inf' and isinstance(t.ops[0], (ast.Lt, ast.LtE)):
                return B(env)                          # inf < c is false
            if is_scalar(env, l) and is_scalar(env, r):
                a, b = scalar(env, l, h), scalar(env, r, h)
                c = {ast.Lt: '%s <? %s' % (a, b), ast.LtE: '%s <=? %s' % (a, b),
                     ast.Gt: '%s <? %s' % (b, a), ast.GtE: '%s <=? %s' % (b, a)}[type(t.ops[0])]
                return '(if %s then\n  %s\n else\n  %s)' % (c, A(env), B(env))
        fail(s, 'test outside the grammar')


# ------------------------------------------------------------ class tables
# (coq name, file, path, [(coq parameter, type, python name(s), kind)], extras)
PROX = [
    ('call_box', PROX_PY, 'proximal_box_constraint.ProxOpBoxConstraint._call',
     [('lo', 'bound T', ['lower'], 'bound'), ('hi', 'bound T', ['upper'], 'bound')], {}),
    ('call_l2', PROX_PY, 'proximal_l2.ProximalL2._call',
     [('w', 'T', [], 'T'), ('e1p', 'T', [], 'T'), ('lam', 'T', ['lam'], 'T'), ('sigma', 'T', ['self.sigma'], 'T'),
      ('g', 'option val', ['g'], 'oval')], {'%w': 'w', '%e1p': 'e1p'}),
    ('call_ccl2sq', PROX_PY, 'proximal_convex_conj_l2_squared.ProximalConvexConjL2Squared._call',
     [('lam', 'T', ['lam'], 'T'), ('sigma', 'sval T', ['self.sigma'], 'sval'), ('g', 'option val', ['g'], 'oval')], {}),
    ('call_l2sq', PROX_PY, 'proximal_l2_squared.ProximalL2Squared._call',
     [('lam', 'T', ['lam'], 'T'), ('sigma', 'sval T', ['self.sigma'], 'sval'), ('g', 'option val', ['g'], 'oval')], {}),
    ('call_ccl1', PROX_PY, 'proximal_convex_conj_l1.ProximalConvexConjL1._call',
     [('lam', 'T', ['lam'], 'T'), ('sigma', 'sval T', ['self.sigma'], 'sval'), ('g', 'option val', ['g'], 'oval')], {}),
    ('call_ccl1l2', PROX_PY, 'proximal_convex_conj_l1_l2.ProximalConvexConjL1L2._call',
     [('lam', 'T', ['lam'], 'T'), ('sigma', 'T', ['self.sigma'], 'T'), ('g', 'option val', ['g'], 'oval')], {}),
    ('call_l1', PROX_PY, 'proximal_l1.ProximalL1._call',
     [('lam', 'T', ['lam'], 'T'), ('sigma', 'sval T', ['self.sigma'], 'sval'), ('g', 'option val', ['g'], 'oval')], {}),
    ('call_l1l2', PROX_PY, 'proximal_l1_l2.ProximalL1L2._call',
     [('lam', 'T', ['lam'], 'T'), ('sigma', 'T', ['self.sigma'], 'T'), ('g', 'option val', ['g'], 'oval')], {}),
    ('proj_l1', PROX_PY, 'proj_l1', [('radius', 'T', ['radius'], 'T')], {}),
    ('call_linf', PROX_PY, 'proximal_linfty.ProximalLInfty._call', [('sigma', 'T', ['self.sigma'], 'T')], {}),
    ('call_cclinf', PROX_PY, 'proximal_convex_conj_linfty.ProximalConvexConjLinfty._call', [], {}),
    ('call_cckl', PROX_PY, 'proximal_convex_conj_kl.ProximalConvexConjKL._call',
     [('lam', 'T', ['lam'], 'T'), ('sigma', 'T', ['self.sigma'], 'T'), ('g', 'option val', ['g'], 'oval')], {}),
    ('call_ccklce', PROX_PY, 'proximal_convex_conj_kl_cross_entropy.ProximalConvexConjKLCrossEntropy._call',
     [('lam', 'T', ['lam'], 'T'), ('W', 'val -> val', [], 'fun')], {'%W': 'W', 'g': None, 'self.sigma': None}),
    ('call_huber', PROX_PY, 'proximal_huber.ProximalHuber._call',
     [('pspace', 'bool', [], 'bool'), ('gamma', 'T', ['gamma'], 'T'), ('sigma', 'T', ['self.sigma'], 'T')],
     {'%pspace': 'pspace'}),
    ('call_simplex', FUNC_PY, 'IndicatorSimplex.proximal.ProximalSimplex._call',
     [('diameter', 'T', ['diameter'], 'T')], {}),
    ('call_sumc', FUNC_PY, 'IndicatorSumConstraint.proximal.ProximalSum._call',
     [('sum_value', 'T', ['sum_value'], 'T')], {}),
]


def _source(path):
    with open(os.path.join(REPO, path)) as fh:
        return ast.parse(fh.read())


def gen_prox(trees):
    out = []
    for name, path, qual, params, extra in PROX:
        fn = find_def(trees[path], qual)
        argn = [a.arg for a in fn.args.args]
        if qual == 'proj_l1':
            if argn != ['x', 'radius', 'out']:
                fail(fn, 'signature of proj_l1')
        elif argn != ['self', 'x', 'out']:
            fail(fn, 'signature of %s' % qual)
        env = Env({'x': ('ref', 'x'), 'out': ('ref', 'out'), 'x0': ('ref', 'x')})
        for cn, ty, pys, kd in params:
            for p in pys:
                env = env.set(p, (kd, cn))
        for k_, v_ in extra.items():
            if v_ is not None:
                env = env.set(k_, ('T', v_))
        g = G(name)
        body = Body(g, lambda e, h: h)
        text = body.block(strip_doc(fn.body), env, 'h')
        sig = ' '.join('(%s : %s)' % (cn, ty) for cn, ty, _, _ in params)
        out.append('(* %s:%s *)\nDefinition %s %s (x out : ref) (h : heap) : heap :=\n  %s.\n'
                   % (path, qual, name, sig, text))
    return out


# --------------------------------------------- operator.py / default_ops.py
# class -> children (name -> index) and parameters
OPS = [
    ('OperatorSum', OPER_PY, ['left', 'right'], [], {'self.__tmp_ran': None}),
    ('OperatorVectorSum', OPER_PY, ['operator'], [('v', 'val', 'self.vector', 'val')], {}),
    ('OperatorComp', OPER_PY, ['left', 'right'], [], {'self.__tmp': None}),
    ('OperatorPointwiseProduct', OPER_PY, ['left', 'right'], [], {}),
    ('OperatorLeftScalarMult', OPER_PY, ['operator'], [('s', 'T', 'self.scalar', 'T')], {}),
    ('OperatorRightScalarMult', OPER_PY, ['operator'], [('s', 'T', 'self.scalar', 'T')], {'self.__tmp': None}),
    ('OperatorLeftVectorMult', OPER_PY, ['operator'], [('v', 'val', 'self.vector', 'val')], {}),
    ('OperatorRightVectorMult', OPER_PY, ['operator'], [('v', 'val', 'self.vector', 'val')], {}),
    ('ScalingOperator', DEFOP_PY, [], [('s', 'T', 'self.scalar', 'T')], {}),
    ('ZeroOperator', DEFOP_PY, [], [], {}),
    ('ConstantOperator', DEFOP_PY, [], [('c', 'val', 'self.constant', 'val')], {}),
    ('MultiplyOperator', DEFOP_PY, [], [('m', 'sval T', 'self.multiplicand', 'sval')], {}),
]
ASSUME = {'self.domain == self.range': True, 'not self.__range_is_field': True, 'self.__domain_is_field': False}


class OpBody(object):
    """in-place and out-of-place bodies of an expression class; children are runner arguments"""

    def __init__(self, g, kids, env, none_attrs):
        self.g, self.kids, self.env0, self.none_attrs = g, kids, env, none_attrs

    def split(self, stmts):
        """resolve `if out is None` / assumed tests -> (oop statements, ip statements)"""
        oop, ip = [], []
        for s in stmts:
            if isinstance(s, ast.If):
                ts = ast.unparse(s.test)
                if ts == 'out is None':
                    a, _ = self.split(s.body)
                    _, b = self.split(s.orelse)
                    oop += a
                    ip += b
                    continue
                if ts in ASSUME:
                    a, b = self.split(s.body if ASSUME[ts] else s.orelse)
                    oop += a
                    ip += b
                    continue
                own = ts[:-len(' is not None')] if ts.endswith(' is not None') else None
                if own in self.none_attrs:                      # user-supplied temporaries: assumed absent
                    a, b = self.split(s.orelse)
                    oop += a
                    ip += b
                    continue
                fail(s, 'test in an expression class')
            if isinstance(s, ast.Raise):
                fail(s, 'reachable raise')
            oop.append(s)
            ip.append(s)
        return oop, ip

    # out-of-place expression -> continuation receives (ref text, heap)
    def expr(self, node, env, h, k):
        kd = kind(env, node)
        if kd == 'ref':
            return k(txt(env, node), h)
        if isinstance(node, ast.Call) and key(node.func) and key(node.func)[5:] in self.kids and len(node.args) == 1 \
                and not node.keywords:
            kid = key(node.func)[5:]
            return self.expr(node.args[0], env, h, lambda r, h1: self.new("oop_%s %s" % (kid, r), h1, k))
        if isinstance(node, ast.Call) and ast.unparse(node) == 'self.range.element(copy(self.constant))':
            return self.new('const_new %s (length x)' % txt(env, ast.parse('self.constant', mode='eval').body), h, k)
        if isinstance(node, ast.Call) and ast.unparse(node.func) in ('self.range.element', 'self.domain.element') \
                and not node.args:
            return self.new('fresh (length x)', h, k)
        if isinstance(node, ast.IfExp):
            ts = ast.unparse(node.test)
            own = ts[:-len(' is not None')] if ts.endswith(' is not None') else None
            if own in self.none_attrs:
                return self.expr(node.orelse, env, h, k)
        if isinstance(node, ast.BinOp) and isinstance(node.op, (ast.Add, ast.Mult)):
            l, r = node.left, node.right
            add = isinstance(node.op, ast.Add)
            if kind(env, r) == 'val':                       # E + self.vector / E * self.vector
                f = '(fun o => lin one one o %s)' % txt(env, r) if add else '(fun o => e2 nmul o %s)' % txt(env, r)
                return self.expr(l, env, h, lambda a, h1: self.new('un_new %s %s' % (f, a), h1, k))
            if not add and kind(env, l) == 'sval':          # self.multiplicand * x
                return self.expr(r, env, h, lambda a, h1: self.new('un_new (mult_val %s) %s' % (txt(env, l), a), h1, k))
            if not add and kind(env, r) == 'sval':          # x * self.multiplicand
                return self.expr(l, env, h, lambda a, h1: self.new('un_new (mult_val %s) %s' % (txt(env, r), a), h1, k))
            if not add and is_scalar(env, l):               # self.scalar * E,  0 * x
                return self.expr(r, env, h, lambda a, h1: self.new('un_new (scal %s) %s' % (scalar(env, l, h1), a), h1, k))
            f = '(lin one one)' if add else '(e2 nmul)'
            return self.expr(l, env, h, lambda a, h1: self.expr(r, env, h1, lambda b, h2:
                                                                   self.new('bin_new %s %s %s' % (f, a, b), h2, k)))
        fail(node, 'out-of-place expression')

    def new(self, call, h, k):
        r, h2 = self.g.fresh('r'), self.g.fresh('h')
        return "let '(%s, %s) := %s %s in\n  %s" % (r, h2, call, h, k(r, h2))

    def oop(self, stmts):
        env = self.env0
        if len(stmts) == 1 and isinstance(stmts[0], ast.Return):
            return self.expr(stmts[0].value, env, 'h', lambda r, h: '(%s, %s)' % (r, h))
        if len(stmts) == 2 and isinstance(stmts[0], ast.Assign) and ast.unparse(stmts[0].targets[0]) == 'out' \
                and ast.unparse(stmts[1]) == 'return out':
            return self.expr(stmts[0].value, env, 'h', lambda r, h: '(%s, %s)' % (r, h))
        fail(stmts[0] if stmts else None, 'out-of-place body')

    def ip(self, stmts, env, h):
        if not stmts:
            return h
        s, rest = stmts[0], stmts[1:]
        nxt = lambda env2, h2: self.ip(rest, env2, h2)
        if isinstance(s, ast.Return):
            if s.value is None or ast.unparse(s.value) == 'out':
                return h
            c = s.value                                            # return self.left(tmp, out=out)
            if isinstance(c, ast.Call):
                return self.kidcall(c, env, h, lambda h2: h2)
            fail(s, 'return')
        if isinstance(s, ast.Assign) and len(s.targets) == 1 and isinstance(s.targets[0], ast.Name):
            name = s.targets[0].id
            v = s.value
            if isinstance(v, ast.IfExp):                      # tmp = self.__tmp if self.__tmp is not None else <new element>
                ts = ast.unparse(v.test)
                own = ts[:-len(' is not None')] if ts.endswith(' is not None') else None
                if own not in self.none_attrs:
                    fail(s, 'conditional expression')
                v = v.orelse
            src = ast.unparse(v)
            if src in ('self.range.element()', 'self.domain.element()', 'self.right.range.element()'):
                like = 'out' if src == 'self.range.element()' else 'x'
                return self.new('fresh (length %s)' % like, h, lambda r, h1: nxt(env.set(name, ('ref', r)), h1))
            fail(s, 'assignment in an in-place body')
        if isinstance(s, ast.Expr) and isinstance(s.value, ast.Call):
            c = s.value
            if key(c.func) and key(c.func)[5:] in self.kids:
                return self.kidcall(c, env, h, lambda h2: nxt(env, h2))
            if isinstance(c.func, ast.Attribute) and kind(env, c.func.value) == 'ref':
                o, m = txt(env, c.func.value), c.func.attr
                kw = {a.arg: a.value for a in c.keywords}
                if m == 'lincomb' and len(c.args) == 2 and not kw and kind(env, c.args[1]) == 'ref':
                    return self.leth('st1 (scal %s) %s %s' % (scalar(env, c.args[0], h), txt(env, c.args[1]), o), h,
                                     lambda h2: nxt(env, h2))
                if m == 'multiply' and len(c.args) == 1 and set(kw) == {'out'} and kind(env, c.args[0]) == 'val':
                    return self.leth('st1 (fun a => e2 nmul a %s) %s %s' % (txt(env, c.args[0]), o, txt(env, kw['out'])), h,
                                     lambda h2: nxt(env, h2))
                if m == 'assign' and len(c.args) == 1 and not kw:
                    if kind(env, c.args[0]) == 'val':
                        return self.leth('st0 %s %s' % (txt(env, c.args[0]), o), h, lambda h2: nxt(env, h2))
                    return self.expr(c.args[0], env, h, lambda r, h1:
                                     self.leth('st1 (fun a => a) %s %s' % (r, o), h1, lambda h2: nxt(env, h2)))
            fail(s, 'in-place statement')
        if isinstance(s, ast.AugAssign) and kind(env, s.target) == 'ref':
            o = txt(env, s.target)
            add = isinstance(s.op, ast.Add)
            if not isinstance(s.op, (ast.Add, ast.Mult)):
                fail(s, 'augmented assignment')
            if kind(env, s.value) == 'ref':
                f = '(lin one one)' if add else '(e2 nmul)'
                return self.leth('st2 %s %s %s %s' % (f, o, txt(env, s.value), o), h, lambda h2: nxt(env, h2))
            if kind(env, s.value) == 'val':
                f = '(fun o => lin one one o %s)' % txt(env, s.value) if add else '(fun o => e2 nmul o %s)' % txt(env, s.value)
                return self.leth('st1 %s %s %s' % (f, o, o), h, lambda h2: nxt(env, h2))
            if not add and is_scalar(env, s.value):
                return self.leth('st1 (scal %s) %s %s' % (scalar(env, s.value, h), o, o), h, lambda h2: nxt(env, h2))
        fail(s, 'in-place statement outside the grammar')

    def leth(self, prim, h, k):
        h2 = self.g.fresh('h')
        return 'let %s := %s %s in\n  %s' % (h2, prim, h, k(h2))

    def kidcall(self, c, env, h, k):
        kid = key(c.func)[5:]
        kw = {a.arg: a.value for a in c.keywords}
        if not (kid in self.kids and len(c.args) == 1 and set(kw) == {'out'} and kind(env, c.args[0]) == 'ref'
                and kind(env, kw['out']) == 'ref'):
            fail(c, 'child call')
        return self.leth('ip_%s %s %s' % (kid, txt(env, c.args[0]), txt(env, kw['out'])), h, k)


def gen_ops(trees):
    out = []
    for cls, path, kids, params, none_attrs in OPS:
        fn = find_def(trees[path], cls + '._call')
        if [a.arg for a in fn.args.args] != ['self', 'x', 'out']:
            fail(fn, 'signature of %s._call' % cls)
        env = Env({'x': ('ref', 'x'), 'out': ('ref', 'out')})
        for cn, ty, py, kd in params:
            env = env.set(py, (kd, cn))
        na = set(k.replace('self.__', 'self.__') for k in none_attrs)
        g = G(cls)
        ob = OpBody(g, kids, env, na)
        oop, ip = ob.split(strip_doc(fn.body))
        sig = ' '.join('(%s : %s)' % (cn, ty) for cn, ty, _, _ in params)
        ipk = ' '.join('(ip_%s : ref -> ref -> heap -> heap)' % k for k in kids)
        oopk = ' '.join('(oop_%s : ref -> heap -> ref * heap)' % k for k in kids)
        out.append('(* %s:%s._call, branch `out is not None` *)\nDefinition ip_%s %s %s (x out : ref) (h : heap) : heap :=\n  %s.\n'
                   % (path, cls, cls, ipk, sig, ob.ip(ip, env, 'h')))
        g.n = 0
        out.append('(* %s:%s._call, branch `out is None` *)\nDefinition oop_%s %s %s (x : ref) (h : heap) : ref * heap :=\n  %s.\n'
                   % (path, cls, cls, oopk, sig, ob.oop(oop)))
    return out


HEADER = '''(* GENERATED by translate/prox_calls.py from the working tree of the implementation -- do not edit.
   Heap-level programs of the `_call` bodies, over the primitives of C10/Prims.v. *)
From Coq Require Import ZArith List Bool Arith.
From Verif Require Import Base.Num Base.Vec C10.Prims.
Import ListNotations.
Local Open Scope num_scope.

Section Gen.
Context {T : Type} `{Num T} `{Sqrt T}.
Notation heap := (heap T).
Notation val := (list (list T)).

'''


def translate():
    trees = {p: _source(p) for p in (PROX_PY, FUNC_PY, OPER_PY, DEFOP_PY)}
    parts = gen_prox(trees) + gen_ops(trees)
    return HEADER + '\n'.join(parts) + '\nEnd Gen.\n'


if __name__ == '__main__':
    print(translate())
