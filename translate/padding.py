"""Fail-closed translator: odl/util/numerics.py  ->  coq/Gen/Padding.v

Translated (anything outside the grammar raises TranslateError):
  * _SUPPORTED_RESIZE_PAD_MODES                      (must be the five known modes)
  * _intersection_slice_tuples   loop body           -> intersection_slices istart n_lhs n_rhs
  * _padding_slices_outer                            -> padding_slices_outer off n_lhs n_rhs
  * _padding_slices_inner                            -> padding_slices_inner pad_mode off n_lhs n_rhs
  * _apply_padding: the early-return mode list, `if n_lhs <= n_rhs: continue`,
    n_pad_l / n_pad_r, and every `raise ValueError` guard
                                                     -> padding_applies, padding_skipped,
                                                        n_pad_l, n_pad_r, illegal_size, illegal_padlen

  * resize_array: the offset validation loop                 -> offset_invalid n_orig n_new off
and from odl/discr/discr_ops.py into coq/Gen/ResizeDiscr.v (translate_discr):
  * _resize_discr: the num_l / num_r decision tree             -> num_lr n_orig n_new off
                   new_minpt / new_maxpt formulas              -> new_minpt, new_maxpt (any Num carrier)
  * _offset_from_spaces: shift, sign by `grows`, containment   -> offset_float, offset_contained

Grammar:
  INT   := name | int const | INT (+|-) INT | -INT | min(INT, INT) | max(INT, INT)
           | offset[axis] | lhs_arr.shape[axis] | rhs_arr.shape[axis]
  SLICE := slice(A) | slice(A, A) | slice(A, A, +-1)      A := INT | None | optional-int name
  stmt  := name = INT | name = SLICE | n1, n2 = SLICE, SLICE
           | if name == -1: name = None            (name becomes an optional int)
           | if/elif/else chain over  pad_mode == 'm' / pad_mode in (...)  or INT cmp INT
"""
import ast
import os

from harness.common import TranslateError, REPO

SRC = 'odl/util/numerics.py'
PMODE = {'constant': 'PConstant', 'symmetric': 'PSymmetric', 'periodic': 'PPeriodic',
         'order0': 'POrder0', 'order1': 'POrder1'}
MODES = ['constant', 'symmetric', 'periodic', 'order0', 'order1']
CMP = {ast.Gt: '>?', ast.Lt: '<?', ast.GtE: '>=?', ast.LtE: '<=?', ast.Eq: '=?'}


def fail(node, why):
    raise TranslateError('%s:%s: %s: %s' % (SRC, getattr(node, 'lineno', '?'), why,
                                            ast.unparse(node)[:140] if node is not None else ''))


class Env(object):
    """name -> kind ('int' | 'opt' | 'slice'); SHAPES maps source expressions to parameters."""

    def __init__(self, ints, subst=None):
        self.kind = dict((n, 'int') for n in ints)
        self.subst = subst or {}

    def copy(self):
        e = Env([], self.subst)
        e.kind = dict(self.kind)
        return e


def same(node, text):
    """structural equality of an ast node with the parse of `text` (unparse differs between versions)"""
    mode = 'exec' if isinstance(node, ast.stmt) else 'eval'
    ref = ast.parse(text, mode=mode)
    ref = ref.body[0] if mode == 'exec' else ref.body
    return ast.dump(node) == ast.dump(ref)


def _hdr(loop, text):
    """for-loop header (target, iter) equals that of `text`"""
    ref = ast.parse(text).body[0]
    return (isinstance(loop, ast.For) and ast.dump(loop.target) == ast.dump(ref.target)
            and ast.dump(loop.iter) == ast.dump(ref.iter))


def zlit(k):
    return '%d' % k if k >= 0 else '(%d)' % k


def int_expr(node, env):
    txt = ast.unparse(node)
    if txt in env.subst:
        return env.subst[txt]
    if isinstance(node, ast.Constant) and isinstance(node.value, int) and not isinstance(node.value, bool):
        return zlit(node.value)
    if isinstance(node, ast.Name):
        if env.kind.get(node.id) == 'int':
            return node.id
        fail(node, 'name is not a known integer variable')
    if isinstance(node, ast.UnaryOp) and isinstance(node.op, ast.USub):
        return '(- %s)' % int_expr(node.operand, env)
    if isinstance(node, ast.BinOp) and isinstance(node.op, (ast.Add, ast.Sub)):
        op = '+' if isinstance(node.op, ast.Add) else '-'
        return '(%s %s %s)' % (int_expr(node.left, env), op, int_expr(node.right, env))
    if isinstance(node, ast.BinOp) and isinstance(node.op, ast.FloorDiv):
        d = node.right
        if not (isinstance(d, ast.Constant) and isinstance(d.value, int) and d.value > 0):
            fail(node, 'floor division only by a positive literal')
        return '(%s / %d)' % (int_expr(node.left, env), d.value)    # Z.div floors like Python for d > 0
    if (isinstance(node, ast.Call) and isinstance(node.func, ast.Name) and node.func.id in ('min', 'max')
            and len(node.args) == 2 and not node.keywords):
        return '(Z.%s %s %s)' % (node.func.id, int_expr(node.args[0], env), int_expr(node.args[1], env))
    if (isinstance(node, ast.Call) and isinstance(node.func, ast.Name) and node.func.id == 'abs'
            and len(node.args) == 1 and not node.keywords):
        return '(Z.abs %s)' % int_expr(node.args[0], env)
    fail(node, 'integer expression outside grammar')


def opt_arg(node, env):
    if isinstance(node, ast.Constant) and node.value is None:
        return 'None'
    if isinstance(node, ast.Name) and env.kind.get(node.id) == 'opt':
        return node.id
    return '(Some %s)' % int_expr(node, env)


def is_slice_call(node):
    return isinstance(node, ast.Call) and isinstance(node.func, ast.Name) and node.func.id == 'slice'


def slice_expr(node, env):
    if isinstance(node, ast.Name) and env.kind.get(node.id) == 'slice':
        return node.id
    if not is_slice_call(node) or node.keywords or not 1 <= len(node.args) <= 3:
        fail(node, 'expected slice(...)')
    a = node.args
    if len(a) == 1:
        start, stop, step = 'None', opt_arg(a[0], env), 1
    else:
        start, stop = opt_arg(a[0], env), opt_arg(a[1], env)
        step = 1
        if len(a) == 3:
            s = a[2]
            if isinstance(s, ast.UnaryOp) and isinstance(s.op, ast.USub) and isinstance(s.operand, ast.Constant):
                step = -s.operand.value
            elif isinstance(s, ast.Constant):
                step = s.value
            else:
                fail(s, 'slice step must be a literal')
            if step not in (1, -1):
                fail(s, 'slice step must be +1 or -1')
    return '(Slice %s %s %s)' % (start, stop, zlit(step))


def bool_test(node, env):
    """INT cmp INT [cmp INT] | INT != INT | not B | B and B"""
    if isinstance(node, ast.Compare) and all(type(o) in CMP for o in node.ops):
        terms = [node.left] + list(node.comparators)
        parts = ['(%s %s %s)' % (int_expr(a, env), CMP[type(o)], int_expr(b, env))
                 for a, o, b in zip(terms, node.ops, terms[1:])]
        return parts[0] if len(parts) == 1 else '(' + ' && '.join(parts) + ')'
    if isinstance(node, ast.Compare) and len(node.ops) == 1 and isinstance(node.ops[0], ast.NotEq):
        return '(negb (%s =? %s))' % (int_expr(node.left, env), int_expr(node.comparators[0], env))
    if isinstance(node, ast.UnaryOp) and isinstance(node.op, ast.Not):
        return '(negb %s)' % bool_test(node.operand, env)
    if isinstance(node, ast.BoolOp) and isinstance(node.op, ast.And):
        return '(' + ' && '.join(bool_test(v, env) for v in node.values) + ')'
    fail(node, 'comparison outside grammar')


def mode_test(node):
    """pad_mode == 'm' | pad_mode in ('a', 'b')  ->  set of modes, or None if not a mode test"""
    if not (isinstance(node, ast.Compare) and isinstance(node.left, ast.Name) and node.left.id == 'pad_mode'
            and len(node.ops) == 1):
        return None
    c = node.comparators[0]
    if isinstance(node.ops[0], ast.Eq) and isinstance(c, ast.Constant) and isinstance(c.value, str):
        ms = [c.value]
    elif isinstance(node.ops[0], ast.In) and isinstance(c, ast.Tuple) and all(
            isinstance(e, ast.Constant) and isinstance(e.value, str) for e in c.elts):
        ms = [e.value for e in c.elts]
    else:
        return None
    for m in ms:
        if m not in PMODE:
            fail(node, 'unknown pad mode %r' % m)
    return set(ms)


def simple_stmts(stmts, env, out):
    """Translate a straight-line block into `let` lines appended to out; updates env."""
    for st in stmts:
        if isinstance(st, ast.Expr) and isinstance(st.value, ast.Constant) and isinstance(st.value.value, str):
            continue  # docstring
        if isinstance(st, ast.Assign) and len(st.targets) == 1:
            tg, val = st.targets[0], st.value
            if isinstance(tg, ast.Name):
                if is_slice_call(val):
                    out.append('let %s := %s in' % (tg.id, slice_expr(val, env)))
                    env.kind[tg.id] = 'slice'
                else:
                    out.append('let %s := %s in' % (tg.id, int_expr(val, env)))
                    env.kind[tg.id] = 'int'
                continue
            if (isinstance(tg, ast.Tuple) and isinstance(val, ast.Tuple) and len(tg.elts) == len(val.elts)
                    and all(isinstance(t, ast.Name) for t in tg.elts)):
                for t, v in zip(tg.elts, val.elts):
                    out.append('let %s := %s in' % (t.id, slice_expr(v, env)))
                    env.kind[t.id] = 'slice'
                continue
            fail(st, 'assignment outside grammar')
        if isinstance(st, ast.If) and not st.orelse and len(st.body) == 1:
            # if X == -1: X = None
            t, b = st.test, st.body[0]
            if (isinstance(t, ast.Compare) and isinstance(t.left, ast.Name) and len(t.ops) == 1
                    and isinstance(t.ops[0], ast.Eq) and isinstance(b, ast.Assign) and len(b.targets) == 1
                    and isinstance(b.targets[0], ast.Name) and b.targets[0].id == t.left.id
                    and isinstance(b.value, ast.Constant) and b.value.value is None
                    and env.kind.get(t.left.id) == 'int'):
                x = t.left.id
                out.append('let %s := (if (%s =? %s) then None else Some %s) in'
                           % (x, x, int_expr(t.comparators[0], env), x))
                env.kind[x] = 'opt'
                continue
        fail(st, 'statement outside grammar')


def get_func(tree, name):
    for n in tree.body:
        if isinstance(n, ast.FunctionDef) and n.name == name:
            return n
    raise TranslateError('%s: function %s not found' % (SRC, name))


def body_nodoc(fn):
    b = fn.body
    if b and isinstance(b[0], ast.Expr) and isinstance(b[0].value, ast.Constant) and isinstance(b[0].value.value, str):
        b = b[1:]
    return b


def expect_args(fn, names):
    got = [a.arg for a in fn.args.args]
    if got != names or fn.args.vararg or fn.args.kwarg or fn.args.kwonlyargs or fn.args.defaults:
        fail(fn, 'signature changed, expected %s' % names)


SHAPE_SUBST = {'offset[axis]': 'off', 'lhs_arr.shape[axis]': 'n_lhs', 'rhs_arr.shape[axis]': 'n_rhs'}


def tr_intersection(tree):
    fn = get_func(tree, '_intersection_slice_tuples')
    expect_args(fn, ['lhs_arr', 'rhs_arr', 'offset'])
    b = body_nodoc(fn)
    if len(b) != 3:
        fail(fn, 'expected init; for; return')
    if not same(b[0], 'lhs_slc, rhs_slc = [], []'):
        fail(b[0], 'unexpected initialisation')
    if not same(b[2], 'return tuple(lhs_slc), tuple(rhs_slc)'):
        fail(b[2], 'unexpected return')
    loop = b[1]
    if not (isinstance(loop, ast.For) and not loop.orelse
            and _hdr(loop, 'for istart, n_lhs, n_rhs in zip(offset, lhs_arr.shape, rhs_arr.shape): pass')):
        fail(loop, 'unexpected loop header')
    env = Env(['istart', 'n_lhs', 'n_rhs'])
    out = []
    body = list(loop.body)
    if not body:
        fail(loop, 'empty loop')
    condensed = not isinstance(body[-1], ast.If)
    if condensed and len(body) < 2:
        fail(loop, 'loop must end with the if-chain or with two appends')
    simple_stmts(body[:-1] if not condensed else body[:-2], env, out)

    def sl_or_cond(node):
        """SLICE | SLICE if B else SLICE   (the condensed form: recorded as written, the proofs decide)"""
        if isinstance(node, ast.IfExp):
            return '(if %s then %s else %s)' % (bool_test(node.test, env), sl_or_cond(node.body), sl_or_cond(node.orelse))
        return slice_expr(node, env)

    def pair(stmts):
        if len(stmts) != 2:
            fail(stmts[0] if stmts else loop, 'branch must be two appends')
        got = {}
        for st in stmts:
            c = st.value if isinstance(st, ast.Expr) else None
            if not (isinstance(c, ast.Call) and isinstance(c.func, ast.Attribute) and c.func.attr == 'append'
                    and isinstance(c.func.value, ast.Name) and c.func.value.id in ('lhs_slc', 'rhs_slc')
                    and len(c.args) == 1 and not c.keywords):
                fail(st, 'expected lhs_slc.append / rhs_slc.append')
            if c.func.value.id in got:
                fail(st, 'duplicate append')
            got[c.func.value.id] = sl_or_cond(c.args[0])
        return '(%s, %s)' % (got['lhs_slc'], got['rhs_slc'])

    def chain(node):
        test = bool_test(node.test, env)
        then = pair(node.body)
        if len(node.orelse) == 1 and isinstance(node.orelse[0], ast.If):
            els = chain(node.orelse[0])
        elif node.orelse:
            els = pair(node.orelse)
        else:
            fail(node, 'if-chain without else')
        return 'if %s then %s\n  else %s' % (test, then, els)

    return ('Definition intersection_slices (istart n_lhs n_rhs : Z) : pslice * pslice :=\n  '
            + '\n  '.join(out) + '\n  ' + (chain(body[-1]) if not condensed else pair(body[-2:])) + '.\n')


def tr_assign_check(tree):
    """_assign_intersection must be exactly: slice tuples from _intersection_slice_tuples, then one
    slice assignment (this is what C16/Model.v:assign_intersection transcribes)."""
    fn = get_func(tree, '_assign_intersection')
    expect_args(fn, ['lhs_arr', 'rhs_arr', 'offset'])
    b = body_nodoc(fn)
    if not (len(b) == 2 and same(b[0], 'lhs_slc, rhs_slc = _intersection_slice_tuples(lhs_arr, rhs_arr, offset)')
            and same(b[1], 'lhs_arr[lhs_slc] = rhs_arr[rhs_slc]')):
        fail(fn, '_assign_intersection is no longer `slices; lhs_arr[lhs_slc] = rhs_arr[rhs_slc]`')
    return ('(* _assign_intersection: lhs_arr[lhs_slc] = rhs_arr[rhs_slc] with the slices above (checked) *)\n'
            'Definition assign_intersection_is_slice_copy : bool := true.\n')


def tr_outer(tree):
    fn = get_func(tree, '_padding_slices_outer')
    expect_args(fn, ['lhs_arr', 'rhs_arr', 'axis', 'offset'])
    b = body_nodoc(fn)
    env = Env([], SHAPE_SUBST)
    out = []
    simple_stmts(b[:-1], env, out)
    r = b[-1]
    if not (isinstance(r, ast.Return) and isinstance(r.value, ast.Tuple) and len(r.value.elts) == 2):
        fail(r, 'expected return of two slices')
    ret = '(%s, %s)' % tuple(slice_expr(e, env) for e in r.value.elts)
    return ('Definition padding_slices_outer (off n_lhs n_rhs : Z) : pslice * pslice :=\n  '
            + '\n  '.join(out + [ret]) + '.\n')


def mode_arms(node, env, leaf, default):
    """if/elif/else chain over pad_mode tests -> dict mode -> text"""
    arms = {}
    remaining = set(MODES)
    while True:
        ms = mode_test(node.test)
        if ms is None:
            fail(node.test, 'expected a pad_mode test')
        txt = leaf(node.body, env.copy())
        for m in ms & remaining:
            arms[m] = txt
        remaining -= ms
        if len(node.orelse) == 1 and isinstance(node.orelse[0], ast.If):
            node = node.orelse[0]
            continue
        els = leaf(node.orelse, env.copy()) if node.orelse else default
        if els is None:
            fail(node, 'if-chain without else')
        for m in remaining:
            arms[m] = els
        return arms


def tr_inner(tree):
    fn = get_func(tree, '_padding_slices_inner')
    expect_args(fn, ['lhs_arr', 'rhs_arr', 'axis', 'offset', 'pad_mode'])
    b = body_nodoc(fn)
    k = [i for i, st in enumerate(b) if isinstance(st, ast.If) and mode_test(st.test) is not None]
    if len(k) != 1 or k[0] != len(b) - 2:
        fail(fn, 'expected assignments; one pad_mode if-chain; return')
    env = Env([], SHAPE_SUBST)
    out = []
    simple_stmts(b[:k[0]], env, out)
    r = b[-1]
    if not same(r, 'return pad_slc_l, pad_slc_r'):
        fail(r, 'unexpected return')

    def leaf(stmts, e):
        o = []
        simple_stmts(stmts, e, o)
        if e.kind.get('pad_slc_l') != 'slice' or e.kind.get('pad_slc_r') != 'slice':
            fail(stmts[0], 'branch does not define pad_slc_l / pad_slc_r')
        return '\n      '.join(o + ['(pad_slc_l, pad_slc_r)'])

    arms = mode_arms(b[k[0]], env, leaf, None)
    txt = 'Definition padding_slices_inner (pad_mode : pmode) (off n_lhs n_rhs : Z) : pslice * pslice :=\n  '
    txt += '\n  '.join(out) + '\n  match pad_mode with\n'
    for m in MODES:
        txt += '  | %s =>\n      %s\n' % (PMODE[m], arms[m])
    return txt + '  end.\n'


def tr_apply(tree):
    fn = get_func(tree, '_apply_padding')
    expect_args(fn, ['lhs_arr', 'rhs_arr', 'offset', 'pad_mode', 'direction'])
    b = body_nodoc(fn)
    # early return
    first = b[0]
    if not (isinstance(first, ast.If) and not first.orelse and len(first.body) == 1
            and isinstance(first.body[0], ast.Return) and first.body[0].value is None
            and isinstance(first.test, ast.Compare) and isinstance(first.test.ops[0], ast.NotIn)
            and ast.unparse(first.test.left) == 'pad_mode' and isinstance(first.test.comparators[0], ast.Tuple)):
        fail(first, 'expected `if pad_mode not in (...): return`')
    applies = [e.value for e in first.test.comparators[0].elts]
    for m in applies:
        if m not in PMODE:
            fail(first, 'unknown pad mode')
    loops = [st for st in b if isinstance(st, ast.For)]
    if len(loops) != 1:
        fail(fn, 'expected exactly one axis loop')
    loop = loops[0]
    if not _hdr(loop, 'for axis, (n_lhs, n_rhs) in enumerate(zip(lhs_arr.shape, rhs_arr.shape)): pass'):
        fail(loop, 'unexpected axis loop header')
    body = loop.body
    # `if n_lhs <= n_rhs: continue`, possibly preceded by size guards (then they also hit axes that are NOT
    # extended -- recorded in size_guard_before_skip, which the theorems require to be false)
    env = Env(['n_lhs', 'n_rhs'], SHAPE_SUBST)
    is_skip = lambda st: (isinstance(st, ast.If) and not st.orelse and len(st.body) == 1
                          and isinstance(st.body[0], ast.Continue))
    k_skip = [k for k, st in enumerate(body) if is_skip(st)]
    if len(k_skip) != 1:
        fail(body[0], 'expected exactly one `if n_lhs <= n_rhs: continue`')
    k_skip = k_skip[0]
    hoisted = body[:k_skip]
    for st in hoisted:
        if not (isinstance(st, ast.If) and not st.orelse and any(isinstance(x, ast.Raise) for x in ast.walk(st))):
            fail(st, 'only size guards may precede `if n_lhs <= n_rhs: continue`')
    skipped = bool_test(body[k_skip].test, env)
    body = hoisted + body[k_skip + 1:]
    # n_pad_l, n_pad_r
    pads = {}
    i = len(hoisted)
    n_assign = 0
    while i + n_assign < len(body) and isinstance(body[i + n_assign], ast.Assign):
        tg = body[i + n_assign].targets[0]
        if not (isinstance(tg, ast.Name) and tg.id in ('n_pad_l', 'n_pad_r')):
            break
        pads[tg.id] = int_expr(body[i + n_assign].value, env)
        env.kind[tg.id] = 'int'
        n_assign += 1
    if sorted(pads) != ['n_pad_l', 'n_pad_r']:
        fail(body[i] if i < len(body) else fn, 'expected n_pad_l and n_pad_r assignments')
    body = hoisted + body[i + n_assign:]
    i = 0
    n_size_guards_after = 0
    size_conds = dict((m, []) for m in MODES)
    len_conds = dict((m, []) for m in MODES)
    nraise = 0

    def guard(node, table, e):
        t = node.test
        if not (isinstance(t, ast.BoolOp) and isinstance(t.op, ast.And) and len(t.values) == 2):
            fail(node, 'expected `pad_mode == m and cmp`')
        ms = mode_test(t.values[0])
        if ms is None:
            fail(node, 'expected a pad_mode test first')
        if not (len(node.body) == 1 and isinstance(node.body[0], ast.Raise)
                and isinstance(node.body[0].exc, ast.Call) and ast.unparse(node.body[0].exc.func) == 'ValueError'):
            fail(node, 'guard body must raise ValueError')
        c = bool_test(t.values[1], e)
        for m in ms:
            table[m].append(c)

    while i < len(body):
        st = body[i]
        if isinstance(st, ast.If) and any(isinstance(x, ast.Raise) for x in ast.walk(st)):
            if st.orelse:
                fail(st, 'size guard with else')
            guard(st, size_conds, env)
            names = set(n.id for n in ast.walk(st.test.values[1]) if isinstance(n, ast.Name))
            if not names <= {'n_rhs'}:
                fail(st, 'size guard may only mention n_rhs')
            nraise += 1
            if i >= len(hoisted):
                n_size_guards_after += 1
        elif isinstance(st, ast.For) and any(isinstance(x, ast.Raise) for x in ast.walk(st)):
            if not _hdr(st, "for lr, pad_len in [('left', n_pad_l), ('right', n_pad_r)]: pass"):
                fail(st, 'unexpected left/right loop header')
            e2 = env.copy()
            e2.kind['pad_len'] = 'int'
            if len(st.body) != 1 or not isinstance(st.body[0], ast.If):
                fail(st, 'left/right loop must be one if-chain')
            node = st.body[0]
            while True:
                guard(node, len_conds, e2)
                names = set(n.id for n in ast.walk(node.test.values[1]) if isinstance(n, ast.Name))
                if not names <= {'n_rhs', 'pad_len'}:
                    fail(node, 'pad-length guard may only mention pad_len and n_rhs')
                nraise += 1
                if len(node.orelse) == 1 and isinstance(node.orelse[0], ast.If):
                    node = node.orelse[0]
                elif node.orelse:
                    fail(node, 'else branch in guard chain')
                else:
                    break
        i += 1
    total = sum(1 for x in ast.walk(fn) if isinstance(x, ast.Raise))
    if total != nraise:
        fail(fn, '%d raise statements, %d translated' % (total, nraise))
    if hoisted and n_size_guards_after:
        fail(fn, 'size guards both before and after the skip test')

    def disj(cs):
        return ' || '.join(cs) if cs else 'false'

    txt = 'Definition padding_applies (pad_mode : pmode) : bool :=\n  match pad_mode with\n'
    for m in MODES:
        txt += '  | %s => %s\n' % (PMODE[m], 'true' if m in applies else 'false')
    txt += '  end.\n'
    txt += 'Definition padding_skipped (n_lhs n_rhs : Z) : bool := %s.\n' % skipped
    txt += ('(* are the size guards evaluated BEFORE `if n_lhs <= n_rhs: continue`, i.e. also for axes that are not extended? *)\n'
            'Definition size_guard_before_skip : bool := %s.\n' % ('true' if hoisted else 'false'))
    txt += 'Definition n_pad_l (off n_lhs n_rhs : Z) : Z := %s.\n' % pads['n_pad_l']
    txt += ('Definition n_pad_r (off n_lhs n_rhs : Z) : Z :=\n  let n_pad_l := n_pad_l off n_lhs n_rhs in %s.\n'
            % pads['n_pad_r'])
    txt += 'Definition illegal_size (pad_mode : pmode) (n_rhs : Z) : bool :=\n  match pad_mode with\n'
    for m in MODES:
        txt += '  | %s => %s\n' % (PMODE[m], disj(size_conds[m]))
    txt += '  end.\n'
    txt += 'Definition illegal_padlen (pad_mode : pmode) (pad_len n_rhs : Z) : bool :=\n  match pad_mode with\n'
    for m in MODES:
        txt += '  | %s => %s\n' % (PMODE[m], disj(len_conds[m]))
    txt += '  end.\n'
    return txt


def tr_offset_check(tree):
    """for i, (n_orig, n_new, off) in enumerate(zip(arr.shape, out.shape, offset)):
           if COND: raise ValueError(...)"""
    fn = get_func(tree, 'resize_array')
    loops = [st for st in fn.body if isinstance(st, ast.For)
             and _hdr(st, 'for i, (n_orig, n_new, off) in enumerate(zip(arr.shape, out.shape, offset)): pass')]
    if len(loops) != 1:
        fail(fn, 'expected exactly one offset validation loop in resize_array')
    body = loops[0].body
    if not (len(body) == 1 and isinstance(body[0], ast.If) and not body[0].orelse and len(body[0].body) == 1
            and isinstance(body[0].body[0], ast.Raise) and isinstance(body[0].body[0].exc, ast.Call)
            and ast.unparse(body[0].body[0].exc.func) == 'ValueError'):
        fail(loops[0], 'offset validation loop must be a single `if ...: raise ValueError`')
    env = Env(['n_orig', 'n_new', 'off'])
    return ('Definition offset_invalid (n_orig n_new off : Z) : bool :=\n  %s.\n' % bool_test(body[0].test, env))


# ---------------------------------------------------------------- odl/discr/discr_ops.py
SRC_D = 'odl/discr/discr_ops.py'


def t_expr(node, ints, carriers):
    """carrier-valued expression: carrier names, integer names (embedded by of_Z), float literals, + - *"""
    txt = ast.unparse(node)
    if txt in carriers:
        return carriers[txt]
    if isinstance(node, ast.Name) and node.id in ints:
        return '(of_Z %s)' % node.id
    if isinstance(node, ast.Constant) and isinstance(node.value, (int, float)) and not isinstance(node.value, bool):
        from fractions import Fraction
        f = Fraction(node.value)
        return '(of_Q (%d # %d)%%Q)' % (f.numerator, f.denominator)
    if isinstance(node, ast.UnaryOp) and isinstance(node.op, ast.USub):
        return '(- %s)' % t_expr(node.operand, ints, carriers)
    if isinstance(node, ast.BinOp) and isinstance(node.op, (ast.Add, ast.Sub, ast.Mult, ast.Div)):
        op = {ast.Add: '+', ast.Sub: '-', ast.Mult: '*', ast.Div: '/'}[type(node.op)]
        return '(%s %s %s)' % (t_expr(node.left, ints, carriers), op, t_expr(node.right, ints, carriers))
    raise TranslateError('%s:%s: carrier expression outside grammar: %s'
                         % (SRC_D, getattr(node, 'lineno', '?'), txt[:120]))


def tr_num_lr(fn):
    if not any(same(st, 'affected = np.not_equal(newshp, discr.shape)') for st in fn.body):
        fail(fn, '`affected = np.not_equal(newshp, discr.shape)` not found')
    loops = [st for st in fn.body if isinstance(st, ast.For) and _hdr(
        st, 'for axis, (n_orig, n_new, off, on_bdry) in enumerate(zip(discr.shape, newshp, offset, nodes_on_bdry)): pass')]
    if len(loops) != 1:
        fail(fn, 'axis loop of _resize_discr not found')
    body = loops[0].body
    first = body[0]
    guarded = isinstance(first, ast.If) and ast.unparse(first.test) == 'affected[axis]'
    if not guarded:
        # no `if affected[axis]:` guard: the num_l / num_r computation runs for every axis (then an offset given
        # for an axis of unchanged size moves the range -- the theorem unaffected_axis_keeps_interval fails)
        k_try = [k for k, st in enumerate(body) if isinstance(st, ast.Try)]
        if not k_try or k_try[0] == 0:
            fail(first, 'expected `if affected[axis]:` or the unguarded num_l / num_r computation')
        unguarded = body[:k_try[0]]

    def block(stmts, env):
        """straight-line assignments and nested ifs; every leaf ends with (num_l, num_r)"""
        out = []
        for k, st in enumerate(stmts):
            if isinstance(st, ast.Assign) and len(st.targets) == 1 and isinstance(st.targets[0], ast.Name):
                out.append('let %s := %s in' % (st.targets[0].id, int_expr(st.value, env)))
                env.kind[st.targets[0].id] = 'int'
            elif (isinstance(st, ast.Assign) and len(st.targets) == 1 and isinstance(st.targets[0], ast.Tuple)
                  and isinstance(st.value, ast.Tuple) and len(st.value.elts) == len(st.targets[0].elts)):
                for t, v in zip(st.targets[0].elts, st.value.elts):
                    out.append('let %s := %s in' % (t.id, int_expr(v, env)))
                    env.kind[t.id] = 'int'
            elif isinstance(st, ast.If):
                if k != len(stmts) - 1:
                    fail(st, 'an if must be the last statement of its block')
                return ' '.join(out) + ' ' + branch(st, env)
            else:
                fail(st, 'statement outside grammar')
        if env.kind.get('num_l') != 'int' or env.kind.get('num_r') != 'int':
            fail(stmts[0], 'branch does not define num_l and num_r')
        return ' '.join(out) + ' (num_l, num_r)'

    def branch(node, env):
        t = node.test
        if not node.orelse:
            fail(node, 'if without else')
        els = node.orelse
        els_txt = (lambda e: branch(els[0], e) if len(els) == 1 and isinstance(els[0], ast.If) else block(els, e))
        if same(t, 'off is None'):
            e1, e2 = env.copy(), env.copy()
            e2.kind['off'] = 'int'
            return ('match off with\n    | None => %s\n    | Some off => %s\n    end'
                    % (block(node.body, e1), els_txt(e2)))
        return 'if %s\n    then %s\n    else %s' % (bool_test(t, env), block(node.body, env.copy()), els_txt(env.copy()))

    env = Env(['n_orig', 'n_new'])
    if guarded:
        then = block(first.body, env.copy())
        els = block(first.orelse, env.copy())
        txt = ('Definition num_lr (n_orig n_new : Z) (off : option Z) : Z * Z :=\n'
               '  if negb (n_new =? n_orig)    (* affected[axis] = np.not_equal(newshp, discr.shape)[axis] *)\n'
               '  then %s\n  else %s.\n' % (then, els))
    else:
        txt = ('Definition num_lr (n_orig n_new : Z) (off : option Z) : Z * Z :=\n'
               '  (* NO `if affected[axis]` guard in the source *)\n  %s.\n' % block(unguarded, env.copy()))
    # new_minpt / new_maxpt
    carriers = {'grid_min[axis]': 'grid_min', 'grid_max[axis]': 'grid_max', 'cell_size[axis]': 'cell_size'}
    if not any(same(st, 'grid_min, grid_max = discr.grid.min(), discr.grid.max()') for st in fn.body) or \
            not any(same(st, 'cell_size = discr.cell_sides') for st in fn.body):
        fail(fn, 'grid_min / grid_max / cell_size definitions changed')
    defs = {}
    for st in body:
        if isinstance(st, ast.If) and isinstance(st.test, ast.Name) and st.test.id in ('on_bdry_l', 'on_bdry_r'):
            def app(stmts):
                if not (len(stmts) == 1 and isinstance(stmts[0], ast.Expr) and isinstance(stmts[0].value, ast.Call)
                        and isinstance(stmts[0].value.func, ast.Attribute) and stmts[0].value.func.attr == 'append'
                        and len(stmts[0].value.args) == 1):
                    fail(st, 'expected a single append')
                return stmts[0].value.func.value.id, stmts[0].value.args[0]
            (l1, e1), (l2, e2) = app(st.body), app(st.orelse)
            if l1 != l2 or l1 in defs:
                fail(st, 'unexpected append targets')
            defs[l1] = (st.test.id, t_expr(e1, ('num_l', 'num_r'), carriers), t_expr(e2, ('num_l', 'num_r'), carriers))
    if sorted(defs) != ['new_maxpt', 'new_minpt']:
        fail(fn, 'new_minpt / new_maxpt formulas not found')
    sec = 'Section Carrier.\nContext {T : Type} `{Num T}.\nLocal Open Scope num_scope.\n'
    sec += ('Definition new_minpt (%s : bool) (grid_min cell_size : T) (num_l : Z) : T :=\n  if %s then %s\n  else %s.\n'
            % (defs['new_minpt'][0], defs['new_minpt'][0], defs['new_minpt'][1], defs['new_minpt'][2]))
    sec += ('Definition new_maxpt (%s : bool) (grid_max cell_size : T) (num_r : Z) : T :=\n  if %s then %s\n  else %s.\n'
            % (defs['new_maxpt'][0], defs['new_maxpt'][0], defs['new_maxpt'][1], defs['new_maxpt'][2]))
    return txt, sec


def tr_offset_from_spaces(fn):
    need = ['affected = np.not_equal(dom.shape, ran.shape)',
            'shift = (ran.grid.min() - dom.grid.min()) / dom.cell_sides',
            'grows = np.greater(ran.shape, dom.shape)',
            'offset_float = np.where(grows, -shift, shift)',
            'offset = np.around(offset_float).astype(int)']
    for t in need:
        if not any(same(st, t) for st in fn.body):
            fail(fn, 'statement changed or missing: ' + t)
    loops = [st for st in fn.body if isinstance(st, ast.For)]
    if len(loops) != 1 or not _hdr(loops[0], 'for i in range(dom.ndim): pass'):
        fail(fn, 'expected one loop over the axes')
    conds = []
    for st in loops[0].body:
        if not (isinstance(st, ast.If) and not st.orelse and len(st.body) == 1 and isinstance(st.body[0], ast.Raise)
                and isinstance(st.test, ast.BoolOp) and isinstance(st.test.op, ast.And)
                and ast.unparse(st.test.values[0]) == 'affected[i]' and len(st.test.values) == 2):
            fail(st, 'expected `if affected[i] and not ...: raise ValueError`')
        conds.append(st.test.values[1])
    if len(conds) != 2 or not same(conds[0], 'not np.isclose(offset[i], offset_float[i])'):
        fail(loops[0], 'expected the integrality guard followed by the containment guard')
    env = Env([], {'offset[i]': 'off', 'ran.shape[i]': 'n_ran', 'dom.shape[i]': 'n_dom'})
    c = conds[1]
    if not (isinstance(c, ast.UnaryOp) and isinstance(c.op, ast.Not)):
        fail(c, 'containment guard must be `not (...)`')
    contained = bool_test(c.operand, env)
    sec = ('(* shift = (ran.grid.min() - dom.grid.min()) / dom.cell_sides;\n'
           '   offset_float = np.where(grows, -shift, shift),  grows = ran.shape > dom.shape *)\n'
           'Definition offset_float (grows : bool) (ran_gmin dom_gmin dom_cs : T) : T :=\n'
           '  let shift := (ran_gmin - dom_gmin) / dom_cs in if grows then - shift else shift.\nEnd Carrier.\n')
    txt = 'Definition offset_contained (off n_ran n_dom : Z) : bool :=\n  %s.\n' % contained
    return sec, txt


def translate_discr(repo=None):
    path = os.path.join(repo or REPO, SRC_D)
    try:
        tree = ast.parse(open(path).read())
    except (IOError, SyntaxError) as e:
        raise TranslateError('cannot read/parse %s: %s' % (path, e))
    global SRC
    old, SRC = SRC, SRC_D
    try:
        num, sec1 = tr_num_lr(get_func(tree, '_resize_discr'))
        sec2, cont = tr_offset_from_spaces(get_func(tree, '_offset_from_spaces'))
    finally:
        SRC = old
    # attributes of the inferred range: taken from discr_kwargs, else INHERITED from the domain
    fnr = get_func(tree, '_resize_discr')
    inherited = []
    for attr in ('dtype', 'impl', 'exponent', 'weighting'):
        if not any(same(st, "%s = discr_kwargs.pop('%s', discr.%s)" % (attr, attr, attr)) for st in fnr.body):
            raise TranslateError("%s: _resize_discr: expected `%s = discr_kwargs.pop('%s', discr.%s)` "
                                 "(the inferred range must inherit the domain's %s)" % (SRC_D, attr, attr, attr, attr))
        inherited.append(attr)
    if not any(isinstance(st, ast.Assign) and same(st, 'tspace = tensor_space(newshp, dtype=dtype, impl=impl, '
                                                      'exponent=exponent, weighting=weighting)') for st in fnr.body):
        raise TranslateError('%s: _resize_discr: the range tensor space is no longer built from '
                             'dtype/impl/exponent/weighting' % SRC_D)
    attrs = ('(* dtype, impl, exponent, weighting of the inferred range: discr_kwargs.pop(attr, discr.attr) *)\n'
             'Definition range_attr {A : Type} (kw : option A) (dom : A) : A :=\n'
             '  match kw with Some v => v | None => dom end.\n'
             'Definition inherited_attrs : list nat := %s%%nat.   (* count of checked attributes *)\n'
             % ('[' + '; '.join(str(i) for i in range(len(inherited))) + ']'))
    return '\n'.join([
        '(* GENERATED by translate/padding.py from %s -- do not edit. *)' % SRC_D,
        'From Coq Require Import ZArith QArith Bool List.',
        'From Verif Require Import Base.Num.',
        'Import ListNotations.', 'Local Open Scope Z_scope.', '', num, cont, attrs, sec1 + sec2])


def translate(repo=None):
    path = os.path.join(repo or REPO, SRC)
    try:
        src = open(path).read()
    except IOError as e:
        raise TranslateError('cannot read %s: %s' % (path, e))
    try:
        tree = ast.parse(src)
    except SyntaxError as e:
        raise TranslateError('%s does not parse: %s' % (SRC, e))
    modes = None
    for n in tree.body:
        if (isinstance(n, ast.Assign) and len(n.targets) == 1 and isinstance(n.targets[0], ast.Name)
                and n.targets[0].id == '_SUPPORTED_RESIZE_PAD_MODES'):
            try:
                modes = list(ast.literal_eval(n.value))
            except Exception:
                fail(n, 'mode list is not a literal')
    if modes is None or sorted(modes) != sorted(MODES):
        raise TranslateError('%s: _SUPPORTED_RESIZE_PAD_MODES = %r, expected the five known modes' % (SRC, modes))
    parts = [
        '(* GENERATED by translate/padding.py from %s -- do not edit. *)' % SRC,
        'From Coq Require Import ZArith Bool List.',
        'From Verif Require Import C16.Syntax.',
        'Import ListNotations.',
        'Local Open Scope Z_scope.',
        '',
        'Definition supported_modes : list pmode := [%s].' % '; '.join(PMODE[m] for m in modes),
        '',
        tr_intersection(tree), tr_outer(tree), tr_inner(tree), tr_apply(tree), tr_offset_check(tree), tr_assign_check(tree)]
    return '\n'.join(parts)


if __name__ == '__main__':
    print(translate())
    print(translate_discr())
