"""Fail-closed translator:  the decision fragments of the ufunc protocol  ->  coq/Gen/UfuncDispatch.v

Read from the CURRENT source (odl/space/npy_tensors.py, odl/discr/discr_space.py, odl/util/ufuncs.py):

  gen_len_bad_tens / gen_len_bad_disc   the guard on the number of `out` arguments
  gen_valid_out_tens / gen_valid_out_disc   the tuple of accepted out types
  gen_call_rule / gen_call2_rule / gen_meth_rule   how NumpyTensor.__array_ufunc__ builds the result space
        (shape taken from self or from the result; weighting kept / reset to constant 1 / default)
        as a table over (result dtype floating?, result shape == self.shape?)
  gen_disc_rejects   the method combinations DiscretizedSpaceElement.__array_ufunc__ refuses, with error class
  gen_legacy_reductions   x.ufuncs.sum/prod/min/max -> ufunc
  gen_legacy_arities      the (nin, nout) combinations wrap_ufunc_base supports
  gen_raw_ufuncs          the names in RAW_UFUNCS

coq/C17/GenTie.v proves that the hand-written model (C17/Model.v) equals these generated definitions, so a
change of one of these fragments breaks a PROOF, not only the correspondence.

Grammar: every fragment is located by its position in the known statement skeleton and compared token by token
(`ast.unparse` text of leaves); the result-space blocks are executed symbolically over the four truth assignments
of (is_floating_dtype(res.dtype), res.shape != self.shape) with the statement forms
    if <one of the two tests>: ... [else: ...]
    weighting = NumpyTensorSpaceConstWeighting(1.0, exponent)
    spc_kwargs = {'weighting': weighting} | {}
    <x>_space = type(self.space)(self.shape | <res>.shape, <res>.dtype[, **spc_kwargs])
    <x> = <x>_space.element(<res>)
Anything else raises TranslateError.
"""
import ast
import os

from harness.common import TranslateError, REPO

NPY = 'odl/space/npy_tensors.py'
DSC = 'odl/discr/discr_space.py'
UFN = 'odl/util/ufuncs.py'

_trees = {}


def _tree(rel):
    if rel not in _trees:
        with open(os.path.join(REPO, rel)) as fh:
            _trees[rel] = ast.parse(fh.read())
    return _trees[rel]


def fail(rel, node, why):
    raise TranslateError('%s:%s: %s: %s' % (rel, getattr(node, 'lineno', '?'), why,
                                            ast.unparse(node)[:160] if node is not None else ''))


def U(node):
    return ast.unparse(node)


def _method(rel, cls, name):
    for n in _tree(rel).body:
        if isinstance(n, ast.ClassDef) and n.name == cls:
            for m in n.body:
                if isinstance(m, ast.FunctionDef) and m.name == name:
                    return m
    fail(rel, None, 'method %s.%s not found' % (cls, name))


def _body(fn):
    """statements without the docstring"""
    b = fn.body
    if b and isinstance(b[0], ast.Expr) and isinstance(b[0].value, ast.Constant) and isinstance(b[0].value.value, str):
        b = b[1:]
    return b


def _if_chain(rel, node):
    """[(test, body)], else-body of an if / elif chain"""
    out = []
    while True:
        out.append((node.test, node.body))
        if len(node.orelse) == 1 and isinstance(node.orelse[0], ast.If):
            node = node.orelse[0]
        else:
            return out, node.orelse


# ------------------------------------------------------------------ 1. number of out arguments
def len_guard(rel, fn):
    stmts = [s for s in _body(fn) if isinstance(s, ast.If) and 'len(out_tuple) not in' in U(s.test)]
    if len(stmts) != 1:
        fail(rel, fn, 'expected exactly one guard on len(out_tuple)')
    chain, orelse = _if_chain(rel, stmts[0])
    if orelse:
        fail(rel, stmts[0], 'guard on len(out_tuple) has an else branch')
    rows = []
    for test, body in chain:
        if not (len(body) == 1 and isinstance(body[0], ast.Raise) and isinstance(body[0].exc, ast.Call)
                and U(body[0].exc.func) == 'ValueError'):
            fail(rel, body[0], 'guard body is not `raise ValueError(...)`')
        if not (isinstance(test, ast.BoolOp) and isinstance(test.op, ast.And) and len(test.values) == 2):
            fail(rel, test, 'guard test is not `A and B`')
        a, b = test.values
        if U(a) == "method == '__call__'":
            is_call = True
        elif U(a) == "method != '__call__'":
            is_call = False
        else:
            fail(rel, a, 'unknown method test')
        if not (isinstance(b, ast.Compare) and len(b.ops) == 1 and isinstance(b.ops[0], ast.NotIn)
                and U(b.left) == 'len(out_tuple)' and isinstance(b.comparators[0], ast.Tuple)):
            fail(rel, b, 'unknown length test')
        allowed = []
        for e in b.comparators[0].elts:
            if isinstance(e, ast.Constant) and isinstance(e.value, int) and 0 <= e.value < 10:
                allowed.append('%d%%nat' % e.value)
            elif U(e) == 'ufunc.nout':
                allowed.append('nout')
            else:
                fail(rel, e, 'unknown allowed length')
        rows.append((is_call, allowed))
    return rows


def emit_len(name, rows):
    terms = ['(%s && negb (existsb (Nat.eqb n) [%s]))' % ('is_call' if c else 'negb is_call', '; '.join(al))
             for c, al in rows]
    return 'Definition %s (is_call : bool) (nout n : nat) : bool :=\n  %s.\n' % (name, ' || '.join(terms))


# ------------------------------------------------------------------ 2. accepted out types
TYPE_TOKENS = {'type(self)': 'KSelf', 'type(self.data)': 'KData', 'np.ndarray': 'KNdarray',
               'type(self.tensor)': 'KTensor', 'type(self.tensor.data)': 'KTensorData'}


def valid_types(rel, fn):
    body = _body(fn)
    for i, s in enumerate(body):
        if isinstance(s, ast.Assign) and U(s.targets[0]) in ('valid_types', 'valid_out_types'):
            var = U(s.targets[0])
            if not isinstance(s.value, ast.Tuple):
                fail(rel, s, 'valid types is not a tuple')
            toks = []
            for e in s.value.elts:
                if U(e) not in TYPE_TOKENS:
                    fail(rel, e, 'unknown out type')
                toks.append(TYPE_TOKENS[U(e)])
            nxt = body[i + 1]
            want = ('if not all((isinstance(o, %s) or o is None for o in out_tuple)):\n    return NotImplemented' % var)
            if U(nxt) != want:
                fail(rel, nxt, 'unexpected use of the valid out types')
            return toks
    fail(rel, fn, 'valid out types not found')


# ------------------------------------------------------------------ 3. result-space rules (symbolic execution)
FLOATING = 'FLOATING'
SHAPE_NE = 'SHAPE_NE'


def _exec_space_block(rel, stmts, res, floating, shape_ne, env):
    """returns dict with 'src' and 'w' once the space construction has been seen"""
    out = {}
    for s in stmts:
        if isinstance(s, ast.If):
            t = U(s.test)
            if t == 'is_floating_dtype(%s.dtype)' % res:
                cond = floating
            elif t == '%s.shape != self.shape' % res:
                cond = shape_ne
            else:
                fail(rel, s.test, 'unknown test in a result-space block')
            out.update(_exec_space_block(rel, s.body if cond else s.orelse, res, floating, shape_ne, env))
        elif isinstance(s, ast.Assign) and len(s.targets) == 1:
            tgt, val = U(s.targets[0]), U(s.value)
            if tgt == 'weighting' and val == 'NumpyTensorSpaceConstWeighting(1.0, exponent)':
                env['weighting'] = 'RESET'
            elif tgt == 'spc_kwargs' and val == "{'weighting': weighting}":
                env['spc_kwargs'] = ('KW', env['weighting'])
            elif tgt == 'spc_kwargs' and val == '{}':
                env['spc_kwargs'] = 'NONE'
            elif tgt.endswith('_space'):
                c = s.value
                if not (isinstance(c, ast.Call) and U(c.func) == 'type(self.space)' and len(c.args) == 2
                        and U(c.args[1]) == '%s.dtype' % res):
                    fail(rel, s, 'unknown space construction')
                shp = U(c.args[0])
                if shp == 'self.shape':
                    out['src'] = 'SrcSelf'
                elif shp == '%s.shape' % res:
                    out['src'] = 'SrcRes'
                else:
                    fail(rel, c.args[0], 'unknown shape argument')
                if not c.keywords:
                    kw = 'NONE'
                elif len(c.keywords) == 1 and c.keywords[0].arg is None and U(c.keywords[0].value) == 'spc_kwargs':
                    kw = env.get('spc_kwargs')
                    if kw is None:
                        fail(rel, s, 'spc_kwargs used before assignment')
                else:
                    fail(rel, s, 'unknown keyword arguments of the space construction')
                out['w'] = {'NONE': 'WDefault', ('KW', 'W0'): 'WKeep', ('KW', 'RESET'): 'WReset'}[kw]
                out['space_var'] = tgt
            elif 'space_var' in out and val == '%s.element(%s)' % (out['space_var'], res):
                out['wrapped'] = tgt
            else:
                fail(rel, s, 'unknown statement in a result-space block')
        else:
            fail(rel, s, 'unknown statement in a result-space block')
    return out


def _space_rule(rel, stmts, res, outvar):
    """table over (floating, shape_eq) for the block `if <outvar> is None: ...`"""
    blocks = [s for s in stmts if isinstance(s, ast.If) and U(s.test) == '%s is None' % outvar and
              any('_space' in U(x) for x in ast.walk(s) if isinstance(x, ast.Assign))]
    if len(blocks) != 1 or blocks[0].orelse:
        fail(rel, stmts[0] if stmts else None, 'result-space block for %s not found' % outvar)
    table = {}
    for floating in (True, False):
        for shape_eq in (True, False):
            r = _exec_space_block(rel, blocks[0].body, res, floating, not shape_eq, {'weighting': 'W0'})
            if not {'src', 'w', 'wrapped'} <= set(r) or r['wrapped'] != outvar:
                fail(rel, blocks[0], 'result-space block does not construct and wrap %s' % outvar)
            table[(floating, shape_eq)] = (r['src'], r['w'])
    return table


def tensor_rules():
    fn = _method(NPY, 'NumpyTensor', '__array_ufunc__')
    body = _body(fn)
    txt = [U(s) for s in body]
    if 'exponent = self.space.exponent' not in txt or 'weighting = self.space.weighting' not in txt:
        fail(NPY, fn, 'exponent / weighting are not taken from self.space')
    tops = [s for s in body if isinstance(s, ast.If) and U(s.test) == "method == '__call__'"]
    if len(tops) != 1:
        fail(NPY, fn, "top-level `if method == '__call__'` not found")
    top = tops[0]
    chain, orelse = _if_chain(NPY, top.body[0]) if (len(top.body) == 1 and isinstance(top.body[0], ast.If)) \
        else fail(NPY, top, '__call__ branch is not a single if-chain on ufunc.nout')
    tests = [U(t) for t, _ in chain]
    if tests != ['ufunc.nout == 1', 'ufunc.nout == 2'] or not (
            len(orelse) == 1 and isinstance(orelse[0], ast.Raise) and 'NotImplementedError' in U(orelse[0])):
        fail(NPY, top.body[0], 'unexpected nout dispatch')
    call1 = _space_rule(NPY, chain[0][1], 'res', 'out')
    c21 = _space_rule(NPY, chain[1][1], 'res1', 'out1')
    c22 = _space_rule(NPY, chain[1][1], 'res2', 'out2')
    if c21 != c22:
        fail(NPY, top.body[0], 'the two outputs of a 2-output ufunc get different space rules')
    meth = _space_rule(NPY, top.orelse, 'res', 'out')
    # `at` is the only method that does not get out=
    at_guard = [s for s in ast.walk(ast.Module(body=top.orelse, type_ignores=[])) if isinstance(s, ast.If)
                and U(s.test) == "method != 'at'"]
    if len(at_guard) != 1 or U(at_guard[0].body[0]) != "kwargs['out'] = out_arr" or at_guard[0].orelse:
        fail(NPY, top, "`if method != 'at': kwargs['out'] = out_arr` not found")
    ret = [s for s in top.orelse if isinstance(s, ast.If) and U(s.test) == 'np.isscalar(res) or res is None']
    if len(ret) != 1 or U(ret[0].body[0]) != 'return res':
        fail(NPY, top, 'scalar / None pass-through not found')
    return call1, c21, meth


def emit_rule(name, table):
    rows = ['  | %s, %s => mkRule %s %s' % (str(f).lower(), str(e).lower(), table[(f, e)][0], table[(f, e)][1])
            for f in (True, False) for e in (True, False)]
    return ('Definition %s (floating shape_eq : bool) : rule :=\n  match floating, shape_eq with\n%s\n  end.\n'
            % (name, '\n'.join(rows)))


# ------------------------------------------------------------------ 4. refusals of the discretized element
def disc_rejects():
    fn = _method(DSC, 'DiscretizedSpaceElement', '__array_ufunc__')
    tops = [s for s in _body(fn) if isinstance(s, ast.If) and U(s.test) == "method == '__call__'"]
    if len(tops) != 1:
        fail(DSC, fn, "top-level `if method == '__call__'` not found")
    chain, orelse = _if_chain(DSC, tops[0])
    rows = []
    known = {"method == 'reduce' and keepdims": ('MReduce', 'RKeepdims'),
             "method == 'reduceat'": ('MReduceat', 'RAlways'),
             "method == 'outer' and (not all((isinstance(inp, type(self)) for inp in inputs)))":
                 ('MOuter', 'RNotAllElems')}
    for test, body in chain[1:]:
        t = U(test)
        if t not in known:
            fail(DSC, test, 'unknown refusal condition')
        if not (len(body) == 1 and isinstance(body[0], ast.Raise) and isinstance(body[0].exc, ast.Call)):
            fail(DSC, body[0], 'refusal body is not a raise')
        err = {'ValueError': 'EValue', 'TypeError': 'EType'}.get(U(body[0].exc.func))
        if err is None:
            fail(DSC, body[0], 'unknown error class')
        rows.append(known[t] + (err,))
    if not orelse:
        fail(DSC, tops[0], 'no general branch after the refusals')
    kd = [U(s) for s in _body(fn)]
    if "keepdims = kwargs.pop('keepdims', False)" not in kd:
        fail(DSC, fn, 'keepdims is not popped from kwargs')
    return rows


# ------------------------------------------------------------------ 5. legacy namespace
def legacy_tables():
    t = _tree(UFN)
    raw = None
    for s in t.body:
        if isinstance(s, ast.Assign) and U(s.targets[0]) == 'RAW_UFUNCS':
            raw = [e.value for e in s.value.elts]
    if raw is None or not all(isinstance(n, str) and n.isidentifier() for n in raw):
        fail(UFN, None, 'RAW_UFUNCS not found')
    reds = []
    for name in ('sum', 'prod', 'min', 'max'):
        fn = _method(UFN, 'TensorSpaceUfuncs', name)
        b = _body(fn)
        if not (len(b) == 1 and isinstance(b[0], ast.Return) and isinstance(b[0].value, ast.Call)
                and U(b[0].value.func) == 'self.elem.__array_ufunc__' and len(b[0].value.args) == 3
                and U(b[0].value.args[1]) == "'reduce'" and U(b[0].value.args[2]) == 'self.elem'):
            fail(UFN, fn, 'unexpected body of a legacy reduction')
        uf = U(b[0].value.args[0])
        if not uf.startswith('np.'):
            fail(UFN, fn, 'legacy reduction does not use a NumPy ufunc')
        kws = sorted(k.arg + '=' + U(k.value) for k in b[0].value.keywords)
        if kws != ['axis=axis', 'dtype=dtype', 'keepdims=keepdims', 'out=_as_out_tuple(out)']:
            fail(UFN, fn, 'unexpected keyword arguments of a legacy reduction')
        reds.append((name, uf[3:]))
    # the helper that turns `out` into the tuple __array_ufunc__ expects (commit 5a7f53f)
    hp = [n for n in t.body if isinstance(n, ast.FunctionDef) and n.name == '_as_out_tuple']
    if len(hp) != 1 or U(hp[0].args) != 'out' or [U(x) for x in _body(hp[0])] != [
            'return out if isinstance(out, tuple) else (out,)']:
        fail(UFN, hp[0] if hp else None, '_as_out_tuple is not `return out if isinstance(out, tuple) else (out,)`')
    # arity dispatch of wrap_ufunc_base
    wb = [n for n in t.body if isinstance(n, ast.FunctionDef) and n.name == 'wrap_ufunc_base']
    if len(wb) != 1:
        fail(UFN, None, 'wrap_ufunc_base not found')
    tops = [s for s in _body(wb[0]) if isinstance(s, ast.If) and U(s.test).startswith('n_in ==')]
    if len(tops) != 1:
        fail(UFN, wb[0], 'arity dispatch not found')
    ar = []
    chain, orelse = _if_chain(UFN, tops[0])
    if not (len(orelse) == 1 and 'NotImplementedError' in U(orelse[0])):
        fail(UFN, tops[0], 'arity dispatch does not end in NotImplementedError')
    for test, body in chain:
        nin = int(U(test).split('==')[1])
        if not (len(body) == 1 and isinstance(body[0], ast.If)):
            fail(UFN, test, 'unexpected arity branch')
        ch2, or2 = _if_chain(UFN, body[0])
        if not (len(or2) == 1 and 'NotImplementedError' in U(or2[0])):
            fail(UFN, body[0], 'arity branch does not end in NotImplementedError')
        for t2, b2 in ch2:
            if not U(t2).startswith('n_out ==') or not (len(b2) == 1 and isinstance(b2[0], ast.FunctionDef)):
                fail(UFN, t2, 'unexpected n_out branch')
            nout = int(U(t2).split('==')[1])
            ar.append((nin, nout))
            # how each tensor wrapper hands `out` to __array_ufunc__
            wbody = [U(x) for x in _body(b2[0])]
            want = {(1, 1): ['if not isinstance(out, tuple):\n    out = (out,)',
                             "return self.elem.__array_ufunc__(ufunc, '__call__', self.elem, out=out, **kwargs)"],
                    (1, 2): ['if out is None:\n    out = (None, None)',
                             "return self.elem.__array_ufunc__(ufunc, '__call__', self.elem, out=out, **kwargs)"],
                    (2, 1): ["return self.elem.__array_ufunc__(ufunc, '__call__', self.elem, x2, "
                             "out=_as_out_tuple(out), **kwargs)"]}.get((nin, nout))
            if wbody != want:
                fail(UFN, b2[0], 'unexpected body of the tensor wrapper for arity (%d, %d)' % (nin, nout))
    return raw, reds, ar


# ------------------------------------------------------------------ 6. pair-or-broadcast decision of the product-space wrapper
PAIR_CONDS = {'x2 in self.elem.space': 'PairIfInSpace', 'isinstance(x2, type(self.elem))': 'PairIfSameType'}
PAIR_BODY = [
    "result = [getattr(x.ufuncs, name)(x2p, **kwargs) for x, x2p in zip(self.elem, x2)]",
    "return self.elem.space.element(result)",
    "for x, x2p, outp in zip(self.elem, x2, out):\n    getattr(x.ufuncs, name)(x2p, out=outp, **kwargs)",
    "return out"]
BCAST_BODY = [
    "result = [getattr(x.ufuncs, name)(x2, **kwargs) for x in self.elem]",
    "return self.elem.space.element(result)",
    "for x, outp in zip(self.elem, out):\n    getattr(x.ufuncs, name)(x2, out=outp, **kwargs)",
    "return out"]


UNPACK_OUT = 'if isinstance(out, tuple) and len(out) == 1 and (out[0] in self.elem.space):\n    out = out[0]'


def product_unary_forms():
    """the unary (commit 76643f9) and two-output (commit 638a1b5) product-space wrappers, compared statement
    by statement"""
    t = _tree(UFN)
    wp = [n for n in t.body if isinstance(n, ast.FunctionDef) and n.name == 'wrap_ufunc_productspace'][0]
    tops = [s for s in _body(wp) if isinstance(s, ast.If) and U(s.test).startswith('n_in ==')]
    chain, _ = _if_chain(UFN, tops[0])
    one = [b for tst, b in chain if U(tst) == 'n_in == 1']
    if len(one) != 1 or not (len(one[0]) == 1 and isinstance(one[0][0], ast.If)):
        fail(UFN, tops[0], 'unary branch not found')
    ch2, or2 = _if_chain(UFN, one[0][0])
    if [U(x) for x, _ in ch2] != ['n_out == 1', 'n_out == 2'] or 'NotImplementedError' not in U(or2[0]):
        fail(UFN, one[0][0], 'unexpected n_out dispatch of the unary product-space wrapper')
    w1, w2 = ch2[0][1][0], ch2[1][1][0]
    if not (isinstance(w1, ast.FunctionDef) and U(w1.args) == 'self, out=None, **kwargs'):
        fail(UFN, w1, 'unexpected unary wrapper')
    b1 = _body(w1)
    if not (len(b1) == 1 and isinstance(b1[0], ast.If) and U(b1[0].test) == 'out is None'):
        fail(UFN, w1, 'unary wrapper is not `if out is None`')
    got = [U(x) for x in b1[0].body] + ['#else'] + [U(x) for x in b1[0].orelse]
    want = ['result = [getattr(x.ufuncs, name)(**kwargs) for x in self.elem]',
            'return self.elem.space.element(result)', '#else', UNPACK_OUT,
            'for x, out_x in zip(self.elem, out):\n    getattr(x.ufuncs, name)(out=out_x, **kwargs)', 'return out']
    if got != want:
        fail(UFN, b1[0], 'unexpected statements in the unary product-space wrapper')
    if not (isinstance(w2, ast.FunctionDef) and U(w2.args) == 'self, out1=None, out2=None, out=None, **kwargs'):
        fail(UFN, w2, 'unexpected signature of the two-output product-space wrapper')
    got2 = [U(x) for x in _body(w2)]
    want2 = ['if out is not None:\n    out1, out2 = out',
             'if out1 is None:\n    out1 = self.elem.space.element()',
             'if out2 is None:\n    out2 = self.elem.space.element()',
             'for x, out1_x, out2_x in zip(self.elem, out1, out2):\n'
             '    getattr(x.ufuncs, name)(out=(out1_x, out2_x), **kwargs)',
             'return (out1, out2)']
    if got2 != want2:
        fail(UFN, w2, 'unexpected statements in the two-output product-space wrapper')
    return True


def pair_decision():
    t = _tree(UFN)
    wp = [n for n in t.body if isinstance(n, ast.FunctionDef) and n.name == 'wrap_ufunc_productspace']
    if len(wp) != 1:
        fail(UFN, None, 'wrap_ufunc_productspace not found')
    tops = [s for s in _body(wp[0]) if isinstance(s, ast.If) and U(s.test).startswith('n_in ==')]
    if len(tops) != 1:
        fail(UFN, wp[0], 'arity dispatch of wrap_ufunc_productspace not found')
    chain, _ = _if_chain(UFN, tops[0])
    two = [b for tst, b in chain if U(tst) == 'n_in == 2']
    if len(two) != 1 or not (len(two[0]) == 1 and isinstance(two[0][0], ast.If) and U(two[0][0].test) == 'n_out == 1'):
        fail(UFN, tops[0], 'binary branch not found')
    defs = two[0][0].body
    if not (len(defs) == 1 and isinstance(defs[0], ast.FunctionDef) and
            U(defs[0].args) == 'self, x2, out=None, **kwargs'):
        fail(UFN, two[0][0], 'unexpected binary wrapper')
    body = _body(defs[0])
    # commit 257bb2d: NumPy's tuple form out=(o,) with o in the space is unpacked first
    if not (len(body) == 2 and U(body[0]) == UNPACK_OUT and isinstance(body[1], ast.If)):
        fail(UFN, defs[0], 'binary wrapper is not `unpack out=(o,)` followed by a single if')
    top = body[1]
    cond = PAIR_CONDS.get(U(top.test))
    if cond is None:
        fail(UFN, top.test, 'unknown pairing condition')

    def two_way(stmts, want, what):
        if not (len(stmts) == 1 and isinstance(stmts[0], ast.If) and U(stmts[0].test) == 'out is None'):
            fail(UFN, stmts[0], what + ': expected `if out is None`')
        got = [U(s) for s in stmts[0].body] + [U(s) for s in stmts[0].orelse]
        if got != want:
            fail(UFN, stmts[0], what + ': unexpected statements')
    two_way(top.body, PAIR_BODY, 'pairing branch')
    orelse = top.orelse
    # `elif out is None: ... else: ...` is the same as `else: if out is None: ...`
    two_way(orelse, BCAST_BODY, 'broadcasting branch')
    return cond


# ------------------------------------------------------------------ emit
def translate():
    lt = len_guard(NPY, _method(NPY, 'NumpyTensor', '__array_ufunc__'))
    ld = len_guard(DSC, _method(DSC, 'DiscretizedSpaceElement', '__array_ufunc__'))
    vt = valid_types(NPY, _method(NPY, 'NumpyTensor', '__array_ufunc__'))
    vd = valid_types(DSC, _method(DSC, 'DiscretizedSpaceElement', '__array_ufunc__'))
    call1, call2, meth = tensor_rules()
    rej = disc_rejects()
    raw, reds, ar = legacy_tables()
    pc = pair_decision()
    product_unary_forms()
    out = ['(* GENERATED by translate/ufunc_dispatch.py from the current source of /repo -- do not edit. *)',
           'From Coq Require Import List Bool Arith String.',
           'From Verif Require Import C17.Syntax C17.Model.',
           'Import ListNotations.',
           'Local Open Scope string_scope.',
           '',
           emit_len('gen_len_bad_tens', lt),
           emit_len('gen_len_bad_disc', ld),
           'Definition gen_valid_out_tens : list okind := [%s].' % '; '.join(vt),
           'Definition gen_valid_out_disc : list okind := [%s].' % '; '.join(vd),
           '',
           emit_rule('gen_call_rule', call1),
           emit_rule('gen_call2_rule', call2),
           emit_rule('gen_meth_rule', meth),
           'Definition gen_disc_rejects : list (meth * rcond * errk) :=\n  [%s].'
           % '; '.join('(%s, %s, %s)' % r for r in rej),
           '',
           'Definition gen_legacy_reductions : list (string * string) :=\n  [%s].'
           % '; '.join('("%s", "%s")' % r for r in reds),
           '(* binary ProductSpaceUfuncs wrapper: pair the components of self and x2 iff ... else hand x2 to every part *)',
           'Definition gen_pair_cond : paircond := %s.' % pc,
           '(* tuple forms of out, as committed (5a7f53f, 76643f9, 257bb2d, 638a1b5): the tensor wrappers wrap out into a',
           '   1-tuple only when it is not a tuple already; the product-space wrappers unpack out=(o,) with o in the space',
           '   and accept out=(o1, o2) for two-output ufuncs *)',
           'Definition gen_out_tuple_forms : bool := true.',
           'Definition gen_legacy_arities : list (nat * nat) := [%s]%%nat.'
           % '; '.join('(%d, %d)' % a for a in ar),
           'Definition gen_raw_ufuncs : list string :=\n  [%s].' % '; '.join('"%s"' % n for n in raw),
           '']
    return '\n'.join(out)
