"""Fail-closed translator: the `gradient` properties of the functional arithmetic in
odl/solvers/functional/functional.py  ->  coq/Gen/Gradients.v  (syntax gop in coq/C06/Syntax.v).

Grammar (anything else raises TranslateError):
  operator-level body   `return E`
     E := self.<sub>.gradient | self.scalar * E | E * self.scalar | self.vector * E | E * self.vector | E + E
        | E * (IdentityOperator(self.domain) - self.translation)
        | 2 * self.quadratic_coeff * IdentityOperator(self.domain) | ConstantOperator(self.linear_term)
  value-level body (a locally defined Operator subclass whose `_call(self, x)` is the gradient):
     [func = self | func = self.<sub> ; op = self.<sub>]  class ...: def _call(self, x): [n = func.<sub>(x)]* return V
     V := func.<sub>.gradient(x) | K * V | V + V | op.derivative(x).adjoint(func.gradient(op(x)))
     K := func.<sub>(x) | 1 / n | -n / m ** 2          (n, m locals bound to func.<sub>(x))
"""
import ast
import os

from harness.common import TranslateError, REPO

SRC = 'odl/solvers/functional/functional.py'
SUBS = {'left': 'GLeft', 'right': 'GRight', 'functional': 'GFunctional', 'operator': 'GOperator',
        'dividend': 'GDividend', 'divisor': 'GDivisor'}
CLASSES = [('FunctionalLeftScalarMult', 'FCLScal'), ('FunctionalRightScalarMult', 'FCRScal'),
           ('FunctionalComp', 'FCComp'), ('FunctionalRightVectorMult', 'FCRVec'), ('FunctionalSum', 'FCSum'),
           ('FunctionalTranslation', 'FCTransl'), ('FunctionalQuadraticPerturb', 'FCQP'),
           ('FunctionalProduct', 'FCProd'), ('FunctionalQuotient', 'FCQuot')]


def fail(node, why):
    raise TranslateError('%s:%s: %s: %s' % (SRC, getattr(node, 'lineno', '?'), why,
                                            ast.unparse(node)[:160] if node is not None else ''))


def nodoc(stmts):
    return [s for s in stmts if not (isinstance(s, ast.Expr) and isinstance(s.value, ast.Constant))]


def self_attr(node, attr=None, base='self'):
    return (isinstance(node, ast.Attribute) and isinstance(node.value, ast.Name) and node.value.id == base
            and (attr is None or node.attr == attr))


def opexpr(node):
    if isinstance(node, ast.Attribute) and node.attr == 'gradient' and self_attr(node.value) and node.value.attr in SUBS:
        return '(GGrad %s)' % SUBS[node.value.attr]
    if isinstance(node, ast.Call) and isinstance(node.func, ast.Name) and node.func.id == 'ConstantOperator' \
            and len(node.args) == 1 and not node.keywords and self_attr(node.args[0], 'linear_term'):
        return 'GConstLinTerm'
    if isinstance(node, ast.BinOp) and isinstance(node.op, ast.Add):
        return '(GAdd %s %s)' % (opexpr(node.left), opexpr(node.right))
    if isinstance(node, ast.BinOp) and isinstance(node.op, ast.Mult):
        if ast.unparse(node) == '2 * self.quadratic_coeff * IdentityOperator(self.domain)':
            return 'GTwoQuadId'
        if ast.unparse(node.right) == 'IdentityOperator(self.domain) - self.translation':
            return '(GShift %s)' % opexpr(node.left)
        l, r = node.left, node.right
        if self_attr(l, 'scalar'):
            return '(GScalL %s)' % opexpr(r)
        if self_attr(r, 'scalar'):
            return '(GScalR %s)' % opexpr(l)
        if self_attr(l, 'vector'):
            return '(GVecL %s)' % opexpr(r)
        if self_attr(r, 'vector'):
            return '(GVecR %s)' % opexpr(l)
    fail(node, 'operator expression outside grammar')


class ValTr(object):
    def __init__(self, aliases, x):
        self.al = aliases      # name -> ('self',) or ('sub', GSub)
        self.x = x
        self.loc = {}          # local -> GSub   (local = func.<sub>(x))

    def fsub(self, node):
        """func.<sub> -> GSub, where func aliases self"""
        if isinstance(node, ast.Attribute) and isinstance(node.value, ast.Name) \
                and self.al.get(node.value.id) == ('self',) and node.attr in SUBS:
            return SUBS[node.attr]
        if isinstance(node, ast.Name) and self.al.get(node.id, (None,))[0] == 'sub':
            return self.al[node.id][1]
        return None

    def val_of(self, node):
        """func.<sub>(x) -> GSub"""
        if isinstance(node, ast.Call) and len(node.args) == 1 and not node.keywords \
                and isinstance(node.args[0], ast.Name) and node.args[0].id == self.x:
            return self.fsub(node.func)
        return None

    def k(self, node):
        s = self.val_of(node)
        if s:
            return '(KVal %s)' % s
        if isinstance(node, ast.BinOp) and isinstance(node.op, ast.Div):
            if isinstance(node.left, ast.Constant) and node.left.value == 1 and isinstance(node.right, ast.Name) \
                    and node.right.id in self.loc:
                return '(KInvVal %s)' % self.loc[node.right.id]
            if isinstance(node.left, ast.UnaryOp) and isinstance(node.left.op, ast.USub) \
                    and isinstance(node.left.operand, ast.Name) and node.left.operand.id in self.loc \
                    and isinstance(node.right, ast.BinOp) and isinstance(node.right.op, ast.Pow) \
                    and isinstance(node.right.left, ast.Name) and node.right.left.id in self.loc \
                    and isinstance(node.right.right, ast.Constant) and node.right.right.value == 2:
                return '(KNegOverSq %s %s)' % (self.loc[node.left.operand.id], self.loc[node.right.left.id])
        return None

    def v(self, node):
        if isinstance(node, ast.BinOp) and isinstance(node.op, ast.Add):
            return '(GAdd %s %s)' % (self.v(node.left), self.v(node.right))
        if isinstance(node, ast.BinOp) and isinstance(node.op, ast.Mult) and self.k(node.left):
            return '(GKMul %s %s)' % (self.k(node.left), self.v(node.right))
        if isinstance(node, ast.Call) and len(node.args) == 1 and not node.keywords:
            f = node.func
            # func.<sub>.gradient(x)
            if isinstance(f, ast.Attribute) and f.attr == 'gradient' and self.fsub(f.value) \
                    and isinstance(node.args[0], ast.Name) and node.args[0].id == self.x:
                return '(GGrad %s)' % self.fsub(f.value)
            # op.derivative(x).adjoint(func.gradient(op(x)))
            if isinstance(f, ast.Attribute) and f.attr == 'adjoint' and isinstance(f.value, ast.Call) \
                    and isinstance(f.value.func, ast.Attribute) and f.value.func.attr == 'derivative':
                op = self.fsub(f.value.func.value)
                a = node.args[0]
                if op and ast.unparse(f.value.args[0]) == self.x and isinstance(a, ast.Call) \
                        and isinstance(a.func, ast.Attribute) and a.func.attr == 'gradient' and self.fsub(a.func.value) \
                        and len(a.args) == 1 and self.val_of(a.args[0]) == op:
                    return '(GAdjDeriv %s %s)' % (self.fsub(a.func.value), op)
        fail(node, 'value expression outside grammar')


def rule(cls):
    grad = None
    for n in cls.body:
        if isinstance(n, ast.FunctionDef) and n.name == 'gradient':
            grad = n
    if grad is None:
        fail(cls, 'no gradient property')
    b = nodoc(grad.body)
    if len(b) == 1 and isinstance(b[0], ast.Return):
        return opexpr(b[0].value)
    # value level: aliases, one local class, return an instance of it
    aliases = {}
    i = 0
    while i < len(b) and isinstance(b[i], ast.Assign):
        st = b[i]
        if len(st.targets) != 1 or not isinstance(st.targets[0], ast.Name):
            fail(st, 'alias outside grammar')
        if isinstance(st.value, ast.Name) and st.value.id == 'self':
            aliases[st.targets[0].id] = ('self',)
        elif self_attr(st.value) and st.value.attr in SUBS:
            aliases[st.targets[0].id] = ('sub', SUBS[st.value.attr])
        else:
            fail(st, 'alias outside grammar')
        i += 1
    if len(b) != i + 2 or not isinstance(b[i], ast.ClassDef) or not isinstance(b[i + 1], ast.Return):
        fail(grad, 'gradient body outside grammar')
    k = b[i]
    r = b[i + 1].value
    if not (isinstance(r, ast.Call) and isinstance(r.func, ast.Name) and r.func.id == k.name):
        fail(b[i + 1], 'must return an instance of the local class')
    call = [n for n in k.body if isinstance(n, ast.FunctionDef) and n.name == '_call']
    if len(call) != 1 or [a.arg for a in call[0].args.args][:1] != ['self'] or len(call[0].args.args) != 2:
        fail(k, '_call(self, x) expected')
    vt = ValTr(aliases, call[0].args.args[1].arg)
    body = nodoc(call[0].body)
    for st in body[:-1]:
        if isinstance(st, ast.Assign) and len(st.targets) == 1 and isinstance(st.targets[0], ast.Name) and vt.val_of(st.value):
            vt.loc[st.targets[0].id] = vt.val_of(st.value)
        else:
            fail(st, 'local outside grammar')
    if not isinstance(body[-1], ast.Return):
        fail(call[0], '_call must end in return')
    return vt.v(body[-1].value)


def translate():
    tree = ast.parse(open(os.path.join(REPO, SRC)).read())
    classes = {n.name: n for n in tree.body if isinstance(n, ast.ClassDef)}
    out = ['(* GENERATED by translate/gradients.py from %s -- do not edit *)' % SRC,
           'From Verif Require Import C06.Syntax.', '',
           'Definition grad_rule (c : fclass) : gop :=', '  match c with']
    for name, c in CLASSES:
        if name not in classes:
            fail(None, 'class %s not found' % name)
        out.append('  | %s => %s' % (c, rule(classes[name])))
    out.append('  end.')
    # FunctionalScalarSum must remain FunctionalSum(func, ConstantFunctional(...)) without its own gradient
    ss = classes.get('FunctionalScalarSum')
    if ss is None or any(isinstance(n, ast.FunctionDef) and n.name == 'gradient' for n in ss.body) \
            or [ast.unparse(b) for b in ss.bases] != ['FunctionalSum']:
        fail(ss, 'FunctionalScalarSum is no longer a plain FunctionalSum')
    # Functional.derivative: gradient(point).T  (ScalingOperator on a field domain)
    fd = [n for n in classes['Functional'].body if isinstance(n, ast.FunctionDef) and n.name == 'derivative'][0]
    body = '\n'.join(ast.unparse(s) for s in nodoc(fd.body))
    if body != ('grad = self.gradient(point)\nif isinstance(self.domain, Field):\n'
                '    return ScalingOperator(self.domain, grad)\nreturn grad.T'):
        fail(fd, 'Functional.derivative is no longer `gradient(point).T`')
    return '\n'.join(out) + '\n'
