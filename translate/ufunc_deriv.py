"""Fail-closed translator: odl/ufunc_ops/ufunc_ops.py  ->  coq/Gen/UfuncDeriv.v

Translated (anything else raises TranslateError):
  * LINEAR_UFUNCS  (list of str)                              -> ufunc_linear
  * derivative_factory(name): an if/elif chain on `name == '<ufunc>'`, each branch
        def derivative(self, point):
            [point = self.domain.element(point)]
            return MultiplyOperator(E)
    and a final `else: derivative = Operator.derivative`       -> ufunc_deriv : ufn -> option uex
        E := G(self.domain)(point) | self(point) | point | number | -E | E + E | E - E | E * E | E / E | E ** int
  * gradient_factory(name): same chain shape, each branch
        def gradient(self): return F
    and a final `else: gradient = Functional.gradient[.fget]`  -> ufunc_grad : ufn -> option uex
        F := G(self.domain) | self | -F | number + F | F1 * F2 (Functional.__mul__(Operator) = composition F1 o F2)
           | FunctionalQuotient(ConstantFunctional(self.domain, c), F) | ScalingFunctional(self.domain, c)
    (F is read as the function point |-> F(point), i.e. the gradient VALUE at `point`.)
The target syntax (ufn, uex) is hand-written in coq/C06/Syntax.v.
"""
import ast
import os
from fractions import Fraction

from harness.common import TranslateError, REPO

SRC = 'odl/ufunc_ops/ufunc_ops.py'

# the ufunc names known to C06/Syntax.v (constructor = 'U' + name)
UFN = ['sin', 'cos', 'tan', 'sqrt', 'square', 'log', 'exp', 'reciprocal', 'sinh', 'cosh',
       'negative', 'rad2deg', 'deg2rad',
       'absolute', 'sign', 'tanh', 'arcsin', 'arccos', 'arctan', 'arcsinh', 'arccosh', 'arctanh',
       'exp2', 'expm1', 'log2', 'log10', 'log1p']
BINARY_LINEAR = {'add', 'subtract'}       # two-argument ufuncs: not modelled as leaves


def fail(node, why):
    raise TranslateError('%s:%s: %s: %s' % (SRC, getattr(node, 'lineno', '?'), why,
                                            ast.unparse(node)[:160] if node is not None else ''))


def qlit(fr):
    n, d = fr.numerator, fr.denominator
    return '(%d # %d)' % (n, d) if n >= 0 else '((%d) # %d)' % (n, d)


def number(node):
    if isinstance(node, ast.Constant) and isinstance(node.value, (int, float)) and not isinstance(node.value, bool):
        return Fraction(node.value)
    if isinstance(node, ast.UnaryOp) and isinstance(node.op, ast.USub):
        v = number(node.operand)
        return None if v is None else -v
    return None


def is_self_domain(node):
    return (isinstance(node, ast.Attribute) and node.attr == 'domain'
            and isinstance(node.value, ast.Name) and node.value.id == 'self')


def ufn(name, node):
    if name not in UFN:
        fail(node, 'ufunc %r unknown to C06/Syntax.v' % name)
    return 'U' + name


def dexpr(node, me):
    """E: value-level expression in `point`."""
    v = number(node)
    if v is not None:
        return '(UK %s)' % qlit(v)
    if isinstance(node, ast.Name) and node.id == 'point':
        return 'UPoint'
    if isinstance(node, ast.UnaryOp) and isinstance(node.op, ast.USub):
        return '(UNeg %s)' % dexpr(node.operand, me)
    if isinstance(node, ast.BinOp):
        if isinstance(node.op, ast.Pow):
            n = number(node.right)
            if n is None or n.denominator != 1 or n <= 0:
                fail(node, 'exponent must be a positive integer literal')
            return '(UPow %s %d)' % (dexpr(node.left, me), int(n))
        ops = {ast.Add: 'UAdd', ast.Sub: 'USub', ast.Mult: 'UMul', ast.Div: 'UDiv'}
        for k, c in ops.items():
            if isinstance(node.op, k):
                return '(%s %s %s)' % (c, dexpr(node.left, me), dexpr(node.right, me))
        fail(node, 'operator outside grammar')
    if isinstance(node, ast.Call) and len(node.args) == 1 and not node.keywords:
        arg = node.args[0]
        if not (isinstance(arg, ast.Name) and arg.id == 'point'):
            fail(node, 'only calls at `point` are in the grammar')
        f = node.func
        if isinstance(f, ast.Name) and f.id == 'self':
            return '(UApp %s UPoint)' % ufn(me, node)
        if (isinstance(f, ast.Call) and isinstance(f.func, ast.Name) and len(f.args) == 1
                and not f.keywords and is_self_domain(f.args[0])):
            return '(UApp %s UPoint)' % ufn(f.func.id, node)
    fail(node, 'expression outside grammar')


def gexpr(node, me):
    """F: functional-level expression, read as point |-> F(point)."""
    if isinstance(node, ast.Name) and node.id == 'self':
        return '(UApp %s UPoint)' % ufn(me, node)
    if isinstance(node, ast.UnaryOp) and isinstance(node.op, ast.USub):
        return '(UNeg %s)' % gexpr(node.operand, me)
    if isinstance(node, ast.Call) and isinstance(node.func, ast.Name) and not node.keywords:
        fn, args = node.func.id, node.args
        if fn == 'FunctionalQuotient' and len(args) == 2:
            a = args[0]
            if not (isinstance(a, ast.Call) and isinstance(a.func, ast.Name) and a.func.id == 'ConstantFunctional'
                    and len(a.args) == 2 and is_self_domain(a.args[0]) and number(a.args[1]) is not None):
                fail(node, 'dividend must be ConstantFunctional(self.domain, c)')
            return '(UDiv (UK %s) %s)' % (qlit(number(a.args[1])), gexpr(args[1], me))
        if fn == 'ScalingFunctional' and len(args) == 2 and is_self_domain(args[0]) and number(args[1]) is not None:
            return '(UMul (UK %s) UPoint)' % qlit(number(args[1]))
        if len(args) == 1 and is_self_domain(args[0]):
            return '(UApp %s UPoint)' % ufn(fn, node)
    if isinstance(node, ast.BinOp):
        if isinstance(node.op, ast.Add) and number(node.left) is not None:
            return '(UAdd (UK %s) %s)' % (qlit(number(node.left)), gexpr(node.right, me))
        if isinstance(node.op, ast.Mult):
            # Functional.__mul__(Operator) builds FunctionalComp(left, right): composition
            l, r = node.left, node.right
            if (isinstance(l, ast.Call) and isinstance(l.func, ast.Name) and len(l.args) == 1
                    and is_self_domain(l.args[0])):
                return '(UApp %s %s)' % (ufn(l.func.id, node), gexpr(r, me))
    fail(node, 'functional expression outside grammar')


def chain(fdef, target, default_texts):
    """The if/elif chain of a factory: returns [(name, FunctionDef)]."""
    body = [s for s in fdef.body if not (isinstance(s, ast.Expr) and isinstance(s.value, ast.Constant))]
    if len(body) != 2 or not isinstance(body[0], ast.If) or not isinstance(body[1], ast.Return):
        fail(fdef, 'factory must be one if-chain followed by return')
    if ast.unparse(body[1]) != 'return %s' % target:
        fail(body[1], 'unexpected return')
    out = []
    node = body[0]
    while True:
        t = node.test
        if not (isinstance(t, ast.Compare) and isinstance(t.left, ast.Name) and t.left.id == 'name'
                and len(t.ops) == 1 and isinstance(t.ops[0], ast.Eq)
                and isinstance(t.comparators[0], ast.Constant) and isinstance(t.comparators[0].value, str)):
            fail(t, 'branch test must be name == <str>')
        if len(node.body) != 1 or not isinstance(node.body[0], ast.FunctionDef) or node.body[0].name != target:
            fail(node, 'branch must define exactly `%s`' % target)
        out.append((t.comparators[0].value, node.body[0]))
        if len(node.orelse) == 1 and isinstance(node.orelse[0], ast.If):
            node = node.orelse[0]
            continue
        if len(node.orelse) != 1 or ast.unparse(node.orelse[0]) not in default_texts:
            fail(node, 'final else must be one of %r' % (default_texts,))
        return out


def fbody(fd):
    return [s for s in fd.body if not (isinstance(s, ast.Expr) and isinstance(s.value, ast.Constant))]


def translate():
    path = os.path.join(REPO, SRC)
    tree = ast.parse(open(path).read())
    lin = None
    funcs = {}
    for node in tree.body:
        if isinstance(node, ast.Assign) and len(node.targets) == 1 and isinstance(node.targets[0], ast.Name) \
                and node.targets[0].id == 'LINEAR_UFUNCS':
            try:
                lin = ast.literal_eval(node.value)
            except Exception:
                fail(node, 'LINEAR_UFUNCS must be a literal list')
        if isinstance(node, ast.FunctionDef):
            funcs[node.name] = node
    if lin is None or not all(isinstance(s, str) for s in lin):
        fail(None, 'LINEAR_UFUNCS not found')
    for k in ('derivative_factory', 'gradient_factory', 'ufunc_class_factory'):
        if k not in funcs:
            fail(None, '%s not found' % k)
    # the class factory must wire derivative_factory(name) and the linear flag as modelled
    cls_src = ast.unparse(funcs['ufunc_class_factory'])
    for needle in ("'derivative': derivative_factory(name)", 'linear = name in LINEAR_UFUNCS',
                   'Operator.__init__(self, domain=domain, range=range, linear=linear)'):
        if needle not in cls_src:
            fail(funcs['ufunc_class_factory'], 'class factory no longer contains %r' % needle)

    dtab = []
    for name, fd in chain(funcs['derivative_factory'], 'derivative', ('derivative = Operator.derivative',)):
        if [a.arg for a in fd.args.args] != ['self', 'point']:
            fail(fd, 'derivative signature')
        b = fbody(fd)
        if len(b) == 2 and ast.unparse(b[0]) == 'point = self.domain.element(point)':
            b = b[1:]
        if len(b) != 1 or not isinstance(b[0], ast.Return):
            fail(fd, 'derivative body outside grammar')
        r = b[0].value
        if not (isinstance(r, ast.Call) and isinstance(r.func, ast.Name) and r.func.id == 'MultiplyOperator'
                and len(r.args) == 1 and not r.keywords):
            fail(r, 'derivative must return MultiplyOperator(E)')
        dtab.append((ufn(name, fd), dexpr(r.args[0], name)))
    gtab = []
    for name, fd in chain(funcs['gradient_factory'], 'gradient',
                          ('gradient = Functional.gradient', 'gradient = Functional.gradient.fget')):
        b = fbody(fd)
        if len(b) != 1 or not isinstance(b[0], ast.Return):
            fail(fd, 'gradient body outside grammar')
        gtab.append((ufn(name, fd), gexpr(b[0].value, name)))
    for tab in (dtab, gtab):
        names = [n for n, _ in tab]
        if len(set(names)) != len(names):
            fail(None, 'duplicate branch')
    linu = []
    for s in lin:
        if s in BINARY_LINEAR:
            continue
        linu.append(ufn(s, None))

    out = ['(* GENERATED by translate/ufunc_deriv.py from %s -- do not edit *)' % SRC,
           'From Coq Require Import ZArith QArith List.',
           'From Verif Require Import C06.Syntax.',
           'Import ListNotations.', '']

    def table(nm, tab):
        out.append('Definition %s (f : ufn) : option uex :=' % nm)
        out.append('  match f with')
        for n, e in tab:
            out.append('  | %s => Some %s' % (n, e))
        out.append('  | _ => None')
        out.append('  end.')
        out.append('')
    table('ufunc_deriv', dtab)
    table('ufunc_grad', gtab)
    out.append('Definition ufunc_linear (f : ufn) : bool :=')
    out.append('  match f with')
    if linu:
        out.append('  | ' + ' | '.join(linu) + ' => true')
    out.append('  | _ => false')
    out.append('  end.')
    out.append('')
    out.append('Definition ufunc_deriv_names : list ufn := [%s].' % '; '.join(n for n, _ in dtab))
    out.append('Definition ufunc_grad_names : list ufn := [%s].' % '; '.join(n for n, _ in gtab))
    return '\n'.join(out) + '\n'
