"""Fail-closed translator:  odl/trafos/util/ft_utils.py, odl/trafos/fourier.py  ->  coq/Gen/FtFormulas.v

What is regenerated (anything outside the small grammar, or any extra/missing assignment to one of
the watched variables, raises TranslateError):

  reciprocal_grid       rmin/rmax for shifted and unshifted axes, the half-complex rshape rule
                        n // 2 + 1, last_odd, half_rstride and the three-way rmax case analysis
  realspace_grid        the parity rules 2*rn-2 / 2*rn-1, irstride = 2 pi/(n rstride),
                        irmax = irmin + (n-1) irstride
  dft_preprocess_data   _onedim_arr: ones with factor[1::2] = -1 (shifted) and the exponent
                        -imag*pi*(1 - 1/length) * arange (unshifted); imag = -/+ 1j by sign
  _interp_kernel_ft     sinc, squared for 'linear', divided by sqrt(2 pi)
  dft_postprocess_data  exp(imag*x*xi); halfcomplex = len_dft < len_orig; odd = len_orig % 2;
                        fmin; the five-way fmax case analysis; kernel *= stride; multiply/divide
  fourier.py            the back-end call dispatch and normalisation constants of the four
                        _call_numpy methods (which np.fft routine, and the factor
                        np.prod(np.take(self.domain.shape, self.axes)))

Scalar grammar: names bound by the per-function environment, int/float constants, unary minus,
+ - * /, conditional expressions; nat grammar: // % + - * on the shape variable; boolean grammar:
names, not/and, `% 2 == 1`, `a < b`, truthiness of `n % 2`.
"""
import ast
import os
from fractions import Fraction

from harness.common import TranslateError, REPO

UTILS = 'odl/trafos/util/ft_utils.py'
FOURIER = 'odl/trafos/fourier.py'


def fail(src, node, why):
    raise TranslateError('%s:%s: %s: %s' % (src, getattr(node, 'lineno', '?'), why,
                                            ast.unparse(node)[:140] if node is not None else ''))


def txt(node):
    return ast.unparse(node).replace(' ', '')


def qlit(v):
    fr = Fraction(v).limit_denominator(10 ** 9) if isinstance(v, float) else Fraction(v)
    if isinstance(v, float) and float(fr) != v:
        raise TranslateError('constant %r is not a small rational' % v)
    if fr == 0:
        return 'nzero'
    if fr == 1:
        return 'none_'
    n, d = fr.numerator, fr.denominator
    return '(of_Q (%d # %d))' % (n, d) if n >= 0 else '(of_Q ((%d) # %d))' % (n, d)


class Ctx(object):
    """Environment of one function: source text of leaves -> Gallina term, by sort."""

    def __init__(self, src, reals=None, nats=None, bools=None):
        self.src, self.reals, self.nats, self.bools = src, dict(reals or {}), dict(nats or {}), dict(bools or {})

    # ---- scalars (carrier T)
    def real(self, n):
        t = txt(n)
        if t in self.reals:
            return self.reals[t]
        if t in self.nats:
            return '(g_of_nat %s)' % self.nats[t]
        if isinstance(n, ast.Constant) and isinstance(n.value, (int, float)) and not isinstance(n.value, bool):
            return qlit(n.value)
        if isinstance(n, ast.UnaryOp) and isinstance(n.op, ast.USub):
            if isinstance(n.operand, ast.Constant):
                return qlit(-n.operand.value)
            return '(- %s)' % self.real(n.operand)
        if isinstance(n, ast.BinOp):
            for k, v in ((ast.Add, '+'), (ast.Sub, '-'), (ast.Mult, '*'), (ast.Div, '/')):
                if isinstance(n.op, k):
                    return '(%s %s %s)' % (self.real(n.left), v, self.real(n.right))
        if isinstance(n, ast.IfExp):
            return '(if %s then %s else %s)' % (self.boolean(n.test), self.real(n.body), self.real(n.orelse))
        fail(self.src, n, 'scalar expression outside the grammar')

    # ---- naturals
    def nat(self, n):
        t = txt(n)
        if t in self.nats:
            return self.nats[t]
        if isinstance(n, ast.Constant) and isinstance(n.value, int) and not isinstance(n.value, bool) and n.value >= 0:
            return '%d' % n.value
        if isinstance(n, ast.BinOp):
            for k, v in ((ast.Add, '+'), (ast.Sub, '-'), (ast.Mult, '*'), (ast.FloorDiv, '/'), (ast.Mod, 'mod')):
                if isinstance(n.op, k):
                    return '(%s %s %s)' % (self.nat(n.left), v, self.nat(n.right))
        fail(self.src, n, 'integer expression outside the grammar')

    # ---- booleans
    def boolean(self, n):
        t = txt(n)
        if t in self.bools:
            return self.bools[t]
        if isinstance(n, ast.UnaryOp) and isinstance(n.op, ast.Not):
            return '(negb %s)' % self.boolean(n.operand)
        if isinstance(n, ast.BoolOp) and isinstance(n.op, ast.And):
            return '(' + ' && '.join(self.boolean(v) for v in n.values) + ')'
        if isinstance(n, ast.Compare) and len(n.ops) == 1:
            a, b = n.left, n.comparators[0]
            if isinstance(n.ops[0], ast.Eq):
                return '(%s =? %s)%%nat' % (self.nat(a), self.nat(b))
            if isinstance(n.ops[0], ast.Lt):
                return '(%s <? %s)%%nat' % (self.nat(a), self.nat(b))
        fail(self.src, n, 'boolean expression outside the grammar')

    def truthy_nat(self, n):
        """`odd = len_orig % 2` used as a truth value"""
        return '(negb (%s =? 0)%%nat)' % self.nat(n)


# --------------------------------------------------------------------- helpers on function bodies
def get_func(tree, name, src, cls=None):
    body = tree.body
    if cls is not None:
        for n in body:
            if isinstance(n, ast.ClassDef) and n.name == cls:
                body = n.body
                break
        else:
            fail(src, None, 'class %s not found' % cls)
    for n in body:
        if isinstance(n, ast.FunctionDef) and n.name == name:
            return n
    fail(src, None, 'function %s not found' % name)


def base_name(t):
    while isinstance(t, (ast.Subscript, ast.Attribute)):
        t = t.value
    return t.id if isinstance(t, ast.Name) else None


def watched_stmts(fn, names):
    """All simple statements (in source order, any nesting except nested defs) that assign or
    augmented-assign to one of `names`."""
    out = []

    def walk(stmts):
        for s in stmts:
            if isinstance(s, ast.Assign):
                if any(base_name(t) in names for t in s.targets):
                    out.append(s)
            elif isinstance(s, ast.AugAssign):
                if base_name(s.target) in names:
                    out.append(s)
            elif isinstance(s, (ast.If, ast.For, ast.While, ast.With, ast.Try)):
                for fld in ('body', 'orelse', 'finalbody'):
                    walk(getattr(s, fld, []))
                for h in getattr(s, 'handlers', []):
                    walk(h.body)
    walk(fn.body)
    return out


def expect(src, stmts, forms):
    """stmts must be exactly len(forms) statements whose target text equals forms[i]."""
    got = [txt(s.targets[0]) if isinstance(s, ast.Assign) else txt(s.target) + '@aug' for s in stmts]
    if got != forms:
        raise TranslateError('%s: assignments to the watched variables changed: expected %r, found %r'
                             % (src, forms, got))


def find_if(fn, test_text, src):
    for n in ast.walk(fn):
        if isinstance(n, ast.If) and txt(n.test) == test_text:
            return n
    fail(src, fn, 'no `if %s:` found' % test_text)


def single_assign(stmts, src, target):
    if len(stmts) != 1 or not isinstance(stmts[0], ast.Assign) or txt(stmts[0].targets[0]) != target:
        fail(src, stmts[0] if stmts else None, 'expected exactly `%s = ...`' % target)
    return stmts[0].value


def if_chain(node, src, target, ctx, leaf):
    """if/elif/else chain whose branches are single assignments to `target`."""
    if not node.orelse:
        fail(src, node, 'missing else branch')
    test = ctx.boolean(node.test) if not isinstance(node.test, ast.Name) or txt(node.test) in ctx.bools \
        else fail(src, node.test, 'unknown condition')
    then = leaf(single_assign(node.body, src, target))
    if len(node.orelse) == 1 and isinstance(node.orelse[0], ast.If):
        els = if_chain(node.orelse[0], src, target, ctx, leaf)
    else:
        els = leaf(single_assign(node.orelse, src, target))
    return '(if %s then %s else %s)' % (test, then, els)


# ------------------------------------------------------------------------------ the translation
def translate():
    out = []
    emit = out.append
    with open(os.path.join(REPO, UTILS)) as fh:
        tree = ast.parse(fh.read())

    # ---------------- reciprocal_grid
    fn = get_func(tree, 'reciprocal_grid', UTILS)
    ws = watched_stmts(fn, {'rmin', 'rmax', 'rshape', 'last_odd', 'last_shifted', 'half_rstride', 'stride', 'shape'})
    expect(UTILS, ws, ['stride', 'stride[stride==0]', 'shape', 'rmin', 'rmax', 'rshape', 'rmin[shifted]',
                       'rmax[shifted]', 'rmin[not_shifted]', 'rmax[not_shifted]', 'rshape[axes[-1]]', 'last_odd',
                       'last_shifted', 'half_rstride', 'rmax[axes[-1]]', 'rmax[axes[-1]]', 'rmax[axes[-1]]'])
    if txt(ws[0].value) != 'grid.stride.copy()' or txt(ws[1].value) != '1' or txt(ws[2].value) != 'np.array(grid.shape)' \
            or txt(ws[3].value) != 'grid.min_pt.copy()' or txt(ws[4].value) != 'grid.max_pt.copy()' \
            or txt(ws[5].value) != 'list(shape)':
        fail(UTILS, ws[0], 'initialisation of stride/shape/rmin/rmax/rshape changed')
    sh = Ctx(UTILS, reals={'np.pi': 'pi', 'stride[shifted]': 's', 'rmin[shifted]': 'rmin'}, nats={'shape[shifted]': 'n'})
    ns = Ctx(UTILS, reals={'np.pi': 'pi', 'stride[not_shifted]': 's', 'rmin[not_shifted]': 'rmin'},
             nats={'shape[not_shifted]': 'n'})
    emit('(* reciprocal_grid: first point of a transformed axis; s = stride with 0 replaced by 1 *)')
    emit('Definition rg_rmin (pi s : T) (n : nat) (shifted : bool) : T :=\n  if shifted then %s\n  else %s.'
         % (sh.real(ws[6].value), ns.real(ws[8].value)))
    emit('Definition rg_rmax (pi s rmin : T) (n : nat) (shifted : bool) : T :=\n  if shifted then %s\n  else %s.'
         % (sh.real(ws[7].value), ns.real(ws[9].value)))
    hc = find_if(fn, 'halfcomplex', UTILS)
    if hc.orelse:
        fail(UTILS, hc, 'unexpected else branch of `if halfcomplex`')
    la = Ctx(UTILS, reals={'np.pi': 'pi', 'stride[axes[-1]]': 's', 'half_rstride': 'half_rstride'},
             nats={'shape[axes[-1]]': 'n'}, bools={'last_odd': 'last_odd', 'last_shifted': 'last_shifted'})
    emit('(* half-complex: number of points and last point of the halved axis *)')
    emit('Definition rg_half_n (n : nat) : nat := %s%%nat.' % la.nat(ws[10].value))
    if txt(ws[12].value) != 'shift_list[-1]':
        fail(UTILS, ws[12], 'last_shifted is no longer shift_list[-1]')
    chain = [s for s in hc.body if isinstance(s, ast.If)]
    if len(chain) != 1:
        fail(UTILS, hc, 'expected one if/elif/else chain inside `if halfcomplex`')
    emit('Definition rg_half_rmax (pi s : T) (n : nat) (last_shifted : bool) : T :=\n'
         '  let last_odd := %s in\n  let half_rstride := %s in\n  %s.'
         % (la.boolean(ws[11].value), la.real(ws[13].value),
            if_chain(chain[0], UTILS, 'rmax[axes[-1]]', la, la.real)))

    # ---------------- realspace_grid
    fn = get_func(tree, 'realspace_grid', UTILS)
    ws = watched_stmts(fn, {'irshape', 'irstride', 'irmax', 'irmin', 'rstride', 'rshape'})
    expect(UTILS, ws, ['rstride', 'rshape', 'irshape', 'irshape[axes[-1]]', 'irshape[axes[-1]]', 'irmin', 'irshape',
                       'irstride', 'irstride[axes]', 'irmax'])
    if txt(ws[0].value) != 'recip_grid.stride' or txt(ws[1].value) != 'recip_grid.shape' \
            or txt(ws[2].value) != 'list(rshape)' or txt(ws[5].value) != 'np.asarray(x0)' \
            or txt(ws[6].value) != 'np.asarray(irshape)' or txt(ws[7].value) != 'np.copy(rstride)':
        fail(UTILS, ws[0], 'initialisation in realspace_grid changed')
    par = find_if(fn, "str(halfcx_parity).lower()=='even'", UTILS)
    if not (len(par.orelse) == 1 and isinstance(par.orelse[0], ast.If)
            and txt(par.orelse[0].test) == "str(halfcx_parity).lower()=='odd'"):
        fail(UTILS, par, 'parity dispatch changed')
    rc = Ctx(UTILS, nats={'rshape[axes[-1]]': 'rn'})
    even_e = rc.nat(single_assign(par.body, UTILS, 'irshape[axes[-1]]'))
    odd_e = rc.nat(single_assign(par.orelse[0].body, UTILS, 'irshape[axes[-1]]'))
    emit('(* realspace_grid: points of the halved axis by parity, stride and last point *)')
    emit('Definition rs_n (rn : nat) (parity_odd : bool) : nat := (if parity_odd then %s else %s)%%nat.' % (odd_e, even_e))
    rc = Ctx(UTILS, reals={'np.pi': 'pi', 'rstride[axes]': 'rstride', 'irmin': 'x0', 'irstride': 'st'},
             nats={'irshape[axes]': 'n', 'irshape': 'n'})
    emit('Definition rs_stride (pi rstride : T) (n : nat) : T := %s.' % rc.real(ws[8].value))
    emit('Definition rs_max (x0 st : T) (n : nat) : T := %s.' % rc.real(ws[9].value))

    # ---------------- dft_preprocess_data
    fn = get_func(tree, 'dft_preprocess_data', UTILS)
    inner = [n for n in fn.body if isinstance(n, ast.FunctionDef) and n.name == '_onedim_arr']
    if len(inner) != 1:
        fail(UTILS, fn, '_onedim_arr not found')
    ws = watched_stmts(fn, {'imag'})
    expect(UTILS, ws, ['imag', 'imag'])
    sg = find_if(fn, "sign=='-'", UTILS)
    if txt(sg.body[0].value) != '-1j' or txt(sg.orelse[0].test) != "sign=='+'" or txt(sg.orelse[0].body[0].value) != '1j':
        fail(UTILS, sg, 'imag is no longer -1j / 1j for sign - / +')
    ws = watched_stmts(inner[0], {'factor'})
    expect(UTILS, ws, ['factor', 'factor[1::2]', 'factor', 'factor@aug'])
    if txt(ws[0].value) != 'np.ones(length,dtype=out.dtype)' or txt(ws[2].value) != 'np.arange(length,dtype=out.dtype)':
        fail(UTILS, ws[0], 'factor initialisation changed')
    br = find_if(inner[0], 'shift', UTILS)
    if ws[0] not in br.body or ws[3] not in br.orelse or not isinstance(ws[3].op, ast.Mult):
        fail(UTILS, br, 'shift dispatch of _onedim_arr changed')
    if not any(txt(s) == 'np.exp(factor,out=factor)' for s in br.orelse):
        fail(UTILS, br, 'np.exp(factor, out=factor) missing')
    # exponent factor: must be  -imag * np.pi * E ; imag = sg*1j and exp(i pi a) = cispi a
    e = ws[3].value
    if not (isinstance(e, ast.BinOp) and isinstance(e.op, ast.Mult) and isinstance(e.left, ast.BinOp)
            and isinstance(e.left.op, ast.Mult) and txt(e.left.left) == '-imag' and txt(e.left.right) == 'np.pi'):
        fail(UTILS, e, 'exponent is not of the form -imag * np.pi * E')
    pc = Ctx(UTILS, nats={'length': 'n'})
    emit('(* dft_preprocess_data._onedim_arr: entries of the shifted factor ((-1)^j) and the argument a of\n'
         '   exp(i pi a) of the unshifted one; sg = -1 / +1 for sign - / + (imag = sg * 1j) *)')
    emit('Definition pre_shift_even : T := none_.')
    emit('Definition pre_shift_odd : T := %s.' % pc.real(ws[1].value))
    emit('Definition pre_arg (sg : T) (n j : nat) : T := (- sg) * %s * g_of_nat j.' % pc.real(e.right))

    # ---------------- _interp_kernel_ft
    fn = get_func(tree, '_interp_kernel_ft', UTILS)
    ws = watched_stmts(fn, {'ker_ft'})
    expect(UTILS, ws, ['ker_ft', 'ker_ft@aug', 'ker_ft@aug'])
    if txt(ws[0].value) != 'np.sinc(norm_freqs)' or not isinstance(ws[1].op, ast.Mult) or txt(ws[1].value) != 'ker_ft' \
            or not isinstance(ws[2].op, ast.Div) or txt(ws[2].value) != 'np.sqrt(2*np.pi)':
        fail(UTILS, ws[0], 'kernel body changed')
    near = find_if(fn, "interp_=='nearest'", UTILS)
    if not (len(near.body) == 1 and isinstance(near.body[0], ast.Pass) and len(near.orelse) == 1
            and isinstance(near.orelse[0], ast.If) and txt(near.orelse[0].test) == "interp_=='linear'"
            and ws[1] in near.orelse[0].body):
        fail(UTILS, near, 'interp dispatch changed')

    # ---------------- dft_postprocess_data
    fn = get_func(tree, 'dft_postprocess_data', UTILS)
    ws = watched_stmts(fn, {'x', 'xi', 'onedim_arr', 'len_dft', 'len_orig', 'halfcomplex', 'odd', 'fmin', 'fmax',
                            'freqs', 'stride', 'interp_kernel', 'imag'})
    expect(UTILS, ws, ['imag', 'imag', 'x', 'xi', 'onedim_arr', 'len_dft', 'len_orig', 'halfcomplex', 'odd', 'fmin',
                       'fmax', 'fmax', 'fmax', 'fmax', 'fmax', 'freqs', 'stride', 'interp_kernel',
                       'interp_kernel@aug', 'onedim_arr@aug', 'onedim_arr@aug'])
    need = {2: 'real_grid.min_pt[ax]', 3: 'recip_grid.coord_vectors[ax]', 4: 'np.exp(imag*x*xi)',
            5: 'recip_grid.shape[ax]', 6: 'real_grid.shape[ax]', 15: 'np.linspace(fmin,fmax,num=len_dft)',
            16: 'real_grid.stride[ax]', 17: '_interp_kernel_ft(freqs,intp)', 18: 'stride', 19: 'interp_kernel',
            20: 'interp_kernel'}
    for i, t in need.items():
        if txt(ws[i].value) != t:
            fail(UTILS, ws[i], 'expected `%s`' % t)
    if not (isinstance(ws[18].op, ast.Mult) and isinstance(ws[19].op, ast.Mult) and isinstance(ws[20].op, ast.Div)):
        fail(UTILS, ws[18], 'kernel is no longer multiplied by stride / applied by * and /')
    opif = find_if(fn, "op=='multiply'", UTILS)
    if ws[19] not in opif.body or ws[20] not in opif.orelse:
        fail(UTILS, opif, 'multiply/divide dispatch changed')
    pp = Ctx(UTILS, nats={'len_orig': 'n', 'len_dft': 'rn'},
             bools={'shift': 'shift', 'halfcomplex': 'halfcomplex', 'odd': 'odd'})
    hcx = pp.boolean(ws[7].value)
    if not (isinstance(ws[8].value, ast.BinOp) and isinstance(ws[8].value.op, ast.Mod)):
        fail(UTILS, ws[8], 'odd is no longer len_orig % 2')
    oddx = pp.truthy_nat(ws[8].value)
    hcif = find_if(fn, 'halfcomplex', UTILS)
    emit('(* dft_postprocess_data: normalised frequency range of the kernel; n = len_orig, rn = len_dft *)')
    emit('Definition pp_fmin (n : nat) (shift : bool) : T := %s.' % pp.real(ws[9].value))
    emit('Definition pp_fmax (n rn : nat) (shift : bool) : T :=\n  let halfcomplex := %s in\n  let odd := %s in\n  %s.'
         % (hcx, oddx, '(if halfcomplex then %s else %s)'
            % (if_chain([s for s in hcif.body if isinstance(s, ast.If)][0], UTILS, 'fmax', pp, pp.real),
               if_chain([s for s in hcif.orelse if isinstance(s, ast.If)][0], UTILS, 'fmax', pp, pp.real))))
    emit('(* _interp_kernel_ft(f, interp) * stride, given sinc(f); sq2pi = sqrt(2 pi) *)')
    emit('Definition pp_kernel (sincf sq2pi stride : T) (linear : bool) : T :=\n'
         '  (if linear then sincf * sincf else sincf) / sq2pi * stride.')
    emit('(* argument a of the phase exp(imag * x * xi) = exp(i pi a), xi given in units of pi *)')
    emit('Definition pp_arg (sg x xi_over_pi : T) : T := sg * x * xi_over_pi.')
    core = '\n'.join(out)

    # ---------------- fourier.py: which np.fft routine, which normalisation
    with open(os.path.join(REPO, FOURIER)) as fh:
        ftree = ast.parse(fh.read())
    NAX = 'np.prod(np.take(self.domain.shape,self.axes))'

    def classify_return(e):
        t = txt(e)
        table = {'np.fft.rfftn(x,axes=self.axes)': 'Rfftn', 'np.fft.fftn(x,axes=self.axes)': 'Fftn',
                 NAX + '*np.fft.ifftn(x,axes=self.axes)': 'IfftnTimesN',
                 'np.fft.irfftn(x,axes=self.axes,s=s)': 'IrfftnS', 'np.fft.ifftn(x,axes=self.axes)': 'Ifftn',
                 'np.fft.fftn(x,axes=self.axes)/' + NAX: 'FftnOverN'}
        if t not in table:
            fail(FOURIER, e, 'unknown back-end call')
        return table[t]

    def dft_dispatch(cls, minus_first):
        fn_ = get_func(ftree, '_call_numpy', FOURIER, cls)
        top = [s for s in fn_.body if isinstance(s, ast.If)]
        if len(top) != 1 or txt(top[0].test) != 'self.halfcomplex':
            fail(FOURIER, fn_, 'expected `if self.halfcomplex:` at top level')
        t = top[0]
        hcret = [s for s in t.body if isinstance(s, ast.Return)]
        if len(hcret) != 1:
            fail(FOURIER, t, 'half-complex branch changed')
        for s in t.body:
            if isinstance(s, ast.Assign) and txt(s) != 's=np.take(self.range.shape,self.axes)':
                fail(FOURIER, s, 'unexpected assignment in the half-complex branch')
        inner_ = [s for s in t.orelse if isinstance(s, ast.If)]
        if len(inner_) != 1 or txt(inner_[0].test) != ("self.sign=='-'" if minus_first else "self.sign=='+'"):
            fail(FOURIER, t, 'sign dispatch changed')
        a = classify_return(inner_[0].body[0].value)
        b = classify_return(inner_[0].orelse[0].value)
        minus, plus = (a, b) if minus_first else (b, a)
        return '(if hc then %s else if sign_minus then %s else %s)' % (classify_return(hcret[0].value), minus, plus)

    def ft_dispatch(cls, inverse):
        fn_ = get_func(ftree, '_call_numpy', FOURIER, cls)
        ws_ = watched_stmts(fn_, {'out', 's', 'preproc'})
        forms = [txt(s.targets[0]) if isinstance(s, ast.Assign) else txt(s.target) + '@aug' for s in ws_]
        want = (['preproc', 's', 'out', 'out', 'out@aug', 'out'] if inverse
                else ['preproc', 'out', 'out', 'out', 'out@aug'])
        if forms != want:
            raise TranslateError('%s: %s._call_numpy: assignments changed: %r' % (FOURIER, cls, forms))
        vals = [txt(s.value) for s in ws_]
        if inverse:
            ok = (vals[1] == 'np.asarray(self.range.shape)[list(self.axes)]'
                  and vals[2] == 'np.fft.irfftn(preproc,axes=self.axes,s=s)'
                  and vals[3] == 'np.fft.fftn(preproc,axes=self.axes)' and vals[4] == NAX
                  and isinstance(ws_[4].op, ast.Div) and vals[5] == 'np.fft.ifftn(preproc,axes=self.axes)')
            res = '(if hc then IrfftnS else if sign_minus then FftnOverN else Ifftn)'
        else:
            ok = (vals[1] == 'np.fft.rfftn(preproc,axes=self.axes)' and vals[2] == 'np.fft.fftn(preproc,axes=self.axes)'
                  and vals[3] == 'np.fft.ifftn(preproc,axes=self.axes)' and vals[4] == NAX
                  and isinstance(ws_[4].op, ast.Mult))
            res = '(if hc then Rfftn else if sign_minus then Fftn else IfftnTimesN)'
        top = [s for s in fn_.body if isinstance(s, ast.If) and txt(s.test) == 'self.halfcomplex']
        if not ok or len(top) < 1 or len(top[0].orelse) != 1 or txt(top[0].orelse[0].test) != "self.sign=='-'" \
                or not all(ws_[k] in ast.walk(top[0]) for k in range(1, len(ws_))):
            fail(FOURIER, fn_, '%s._call_numpy: dispatch or normalisation changed' % cls)
        return res

    disp = ['Definition dft_fwd_call (hc sign_minus : bool) : np_call := %s.'
            % dft_dispatch('DiscreteFourierTransform', True),
            'Definition dft_inv_call (hc sign_minus : bool) : np_call := %s.'
            % dft_dispatch('DiscreteFourierTransformInverse', False).replace('sign_minus then', 'sign_minus then'),
            'Definition ft_fwd_call (hc sign_minus : bool) : np_call := %s.' % ft_dispatch('FourierTransform', False),
            'Definition ft_inv_call (hc sign_minus : bool) : np_call := %s.'
            % ft_dispatch('FourierTransformInverse', True)]

    return ('(* GENERATED by translate/ft_formulas.py from %s and %s -- do not edit.\n'
            '   Regenerated on every run of ./check C18; C18/Model.v is built from these definitions. *)\n'
            'From Coq Require Import ZArith QArith List Bool Arith.\n'
            'From Verif Require Import Base.Num.\n'
            'Local Open Scope num_scope.\nLocal Open Scope bool_scope.\n\n'
            '(* which NumPy routine a _call_numpy method runs, with its normalisation:\n'
            '   IfftnTimesN = N * ifftn (unnormalised, exponent +), FftnOverN = fftn / N, N = product of the\n'
            '   lengths of the TRANSFORMED axes; IrfftnS = irfftn with the target lengths s *)\n'
            'Inductive np_call := Rfftn | Fftn | IfftnTimesN | IrfftnS | Ifftn | FftnOverN.\n'
            '%s\n\n'
            'Section Gen.\nContext {T : Type} `{Num T}.\n'
            'Definition g_of_nat (n : nat) : T := of_Z (Z.of_nat n).\n\n%s\nEnd Gen.\n'
            % (UTILS, FOURIER, '\n'.join(disp), core))


if __name__ == '__main__':
    print(translate())
