"""Fail-closed translator: odl/discr/discr_utils.py  ->  coq/Gen/InterpWeights.v

Translated (anything outside the grammar raises TranslateError):
  * _compute_nearest_weights_edge, _compute_linear_weights_edge: straight-line, element-wise
    programs over arrays.  Grammar of a body:
        NAME = np.asarray(NAME)                      (same name: no-op)
        MASK = CMP | np.where(CMP)                   boolean mask
        V = E                                        fresh array:  E := arithmetic | np.copy(E) | np.where(CMP, E, E)
        V[MASK] = E ;  V[MASK] += E                  masked update
        edge = [idcs, idcs + k] ; edge[j][MASK] = int
        return w_lo, w_hi, edge
    A bare `V = W` (alias) is rejected, and `idcs` may not be read after `edge` is built, so the
    element-wise reading is sound.
  * _create_weight_edge_lists: the dispatch  s == 'nearest' / 'linear'  to the two helpers.
  * _Interpolator._find_indices: the loop body
        idcs = np.searchsorted(cvec, xi) - 1 ; idcs[idcs < 0] = 0 ; idcs[idcs > cvec.size - 2] = cvec.size - 2
        norm_distances.append((xi - cvec[idcs]) / (cvec[idcs + 1] - cvec[idcs]))
  * _NearestInterpolator._evaluate:  idx_res.append(np.where(yi < .5, i, i + 1))
"""
import ast
import os
from fractions import Fraction

from harness.common import TranslateError, REPO

SRC = 'odl/discr/discr_utils.py'


def fail(node, why):
    raise TranslateError('%s:%s: %s: %s' % (SRC, getattr(node, 'lineno', '?'), why,
                                            ast.unparse(node)[:120] if node is not None else ''))


def txt(node):
    """Source text of a node with parentheses and blanks removed (robust across ast.unparse versions)."""
    return ast.unparse(node).replace('(', '').replace(')', '').replace(' ', '')


def is_np(node, name, nargs=None):
    ok = (isinstance(node, ast.Call) and isinstance(node.func, ast.Attribute) and node.func.attr == name
          and isinstance(node.func.value, ast.Name) and node.func.value.id == 'np' and not node.keywords)
    return ok and (nargs is None or len(node.args) == nargs)


def qlit(v):
    fr = Fraction(v)
    if fr == 0:
        return 'nzero'
    if fr == 1:
        return 'none_'
    n, d = fr.numerator, fr.denominator
    return 'of_Q (%d # %d)' % (n, d) if n >= 0 else 'of_Q ((%d) # %d)' % (n, d)


def num_const(node):
    if isinstance(node, ast.Constant) and isinstance(node.value, (int, float)) and not isinstance(node.value, bool):
        return node.value
    if isinstance(node, ast.UnaryOp) and isinstance(node.op, ast.USub):
        return -num_const(node.operand)
    fail(node, 'expected a numeric constant')


class Prog(object):
    """Element-wise compilation of one helper body."""

    def __init__(self, reals, ints):
        self.reals, self.ints, self.bools = set(reals), set(ints), set()
        self.lines = []
        self.edge = False

    def rexpr(self, n):
        if isinstance(n, ast.Name):
            if n.id not in self.reals:
                fail(n, 'not a real-valued array here')
            return n.id
        if isinstance(n, (ast.Constant, ast.UnaryOp)):
            return '(%s)' % qlit(num_const(n))
        if isinstance(n, ast.BinOp):
            for k, v in ((ast.Add, '+'), (ast.Sub, '-'), (ast.Mult, '*'), (ast.Div, '/')):
                if isinstance(n.op, k):
                    return '(%s %s %s)' % (self.rexpr(n.left), v, self.rexpr(n.right))
            fail(n, 'operator outside grammar')
        if is_np(n, 'copy', 1) or is_np(n, 'asarray', 1):
            return self.rexpr(n.args[0])
        if is_np(n, 'where', 3):
            return '(if %s then %s else %s)' % (self.cmp(n.args[0]), self.rexpr(n.args[1]), self.rexpr(n.args[2]))
        fail(n, 'real expression outside grammar')

    def cmp(self, n):
        if not (isinstance(n, ast.Compare) and len(n.ops) == 1):
            fail(n, 'expected a single comparison')
        a, b = self.rexpr(n.left), self.rexpr(n.comparators[0])
        op = n.ops[0]
        if isinstance(op, ast.Lt):
            return '(%s <? %s)' % (a, b)
        if isinstance(op, ast.Gt):
            return '(%s <? %s)' % (b, a)
        if isinstance(op, ast.LtE):
            return '(%s <=? %s)' % (a, b)
        if isinstance(op, ast.GtE):
            return '(%s <=? %s)' % (b, a)
        fail(n, 'comparison outside grammar')

    def iexpr(self, n):
        if isinstance(n, ast.Name):
            if n.id not in self.ints:
                fail(n, 'not an index array here (idcs is consumed once edge is built)')
            return n.id
        if isinstance(n, (ast.Constant, ast.UnaryOp)):
            v = num_const(n)
            if not isinstance(v, int):
                fail(n, 'expected an integer')
            return '(%d)%%Z' % v
        if isinstance(n, ast.BinOp) and isinstance(n.op, (ast.Add, ast.Sub)):
            return '(%s %s %s)%%Z' % (self.iexpr(n.left), '+' if isinstance(n.op, ast.Add) else '-', self.iexpr(n.right))
        fail(n, 'index expression outside grammar')

    def mask(self, n):
        if isinstance(n, ast.Name) and n.id in self.bools:
            return n.id
        fail(n, 'expected a mask name')

    def let(self, name, rhs):
        self.lines.append('  let %s := %s in' % (name, rhs))

    def stmt(self, s):
        if isinstance(s, ast.Expr) and isinstance(s.value, ast.Constant) and isinstance(s.value.value, str):
            return None                                          # docstring
        if isinstance(s, ast.Assign) and len(s.targets) == 1:
            t, v = s.targets[0], s.value
            if isinstance(t, ast.Name):
                if is_np(v, 'asarray', 1) and isinstance(v.args[0], ast.Name) and v.args[0].id == t.id:
                    return None                                  # x = np.asarray(x)
                if isinstance(v, ast.Compare) or is_np(v, 'where', 1):
                    self.let(t.id, self.cmp(v if isinstance(v, ast.Compare) else v.args[0]))
                    self.bools.add(t.id)
                    return None
                if isinstance(v, ast.List) and len(v.elts) == 2 and t.id == 'edge':
                    self.let('edge0', self.iexpr(v.elts[0]))
                    self.let('edge1', self.iexpr(v.elts[1]))
                    self.ints = {'edge0', 'edge1'}               # idcs is aliased by edge[0]: consumed
                    self.edge = True
                    return None
                if isinstance(v, ast.Name):
                    fail(s, 'bare alias assignment')
                self.let(t.id, self.rexpr(v))
                self.reals.add(t.id)
                return None
            if isinstance(t, ast.Subscript) and isinstance(t.value, ast.Name) and t.value.id in self.reals \
                    and t.value.id != 'ndist':
                m = self.mask(t.slice)
                self.let(t.value.id, '(if %s then %s else %s)' % (m, self.rexpr(v), t.value.id))
                return None
            if (isinstance(t, ast.Subscript) and isinstance(t.value, ast.Subscript) and self.edge
                    and isinstance(t.value.value, ast.Name) and t.value.value.id == 'edge'):
                k = num_const(t.value.slice)
                if k not in (0, 1):
                    fail(s, 'edge index')
                m = self.mask(t.slice)
                self.let('edge%d' % k, '(if %s then %s else edge%d)' % (m, self.iexpr(v), k))
                return None
            fail(s, 'assignment outside grammar')
        if isinstance(s, ast.AugAssign) and isinstance(s.op, ast.Add):
            t = s.target
            if isinstance(t, ast.Subscript) and isinstance(t.value, ast.Name) and t.value.id in self.reals \
                    and t.value.id != 'ndist':
                m = self.mask(t.slice)
                self.let(t.value.id, '(if %s then (%s + %s) else %s)' % (m, t.value.id, self.rexpr(s.value), t.value.id))
                return None
            fail(s, 'augmented assignment outside grammar')
        if isinstance(s, ast.Return):
            v = s.value
            if not (isinstance(v, ast.Tuple) and [ast.unparse(e) for e in v.elts] == ['w_lo', 'w_hi', 'edge']
                    and self.edge and {'w_lo', 'w_hi'} <= self.reals):
                fail(s, 'expected return w_lo, w_hi, edge')
            return '  mkax edge0 edge1 w_lo w_hi'
        fail(s, 'statement outside grammar')


def weights_fn(fn, coqname):
    if [a.arg for a in fn.args.args] != ['idcs', 'ndist']:
        fail(fn, 'expected arguments (idcs, ndist)')
    p = Prog(['ndist'], ['idcs'])
    ret = None
    for s in fn.body:
        if ret is not None:
            fail(s, 'statement after return')
        ret = p.stmt(s)
    if ret is None:
        fail(fn, 'no return')
    return ('Definition %s {T : Type} `{Num T} (idcs : Z) (ndist : T) : axdat T :=\n%s\n%s.\n'
            % (coqname, '\n'.join(p.lines), ret))


def dispatch(fn):
    """_create_weight_edge_lists: which helper serves which scheme name."""
    loop = [s for s in fn.body if isinstance(s, ast.For)]
    if len(loop) != 1:
        fail(fn, 'expected one loop')
    loop = loop[0]
    if txt(loop.target) != 'i,idcs,yi,s' or txt(loop.iter) != 'enumeratezipindices,norm_distances,interp':
        fail(loop, 'unexpected loop header')
    node = loop.body[0]
    table = {}
    while isinstance(node, ast.If):
        t = node.test
        if not (isinstance(t, ast.Compare) and ast.unparse(t.left) == 's' and isinstance(t.ops[0], ast.Eq)
                and isinstance(t.comparators[0], ast.Constant)):
            fail(t, 'expected s == <str>')
        if len(node.body) != 1:
            fail(node, 'expected a single call')
        b = txt(node.body[0])
        for helper in ('_compute_nearest_weights_edge', '_compute_linear_weights_edge'):
            if b == 'w_lo,w_hi,edge=%sidcs,yi' % helper and isinstance(node.body[0], ast.Assign):
                table[t.comparators[0].value] = helper
                break
        else:
            fail(node.body[0], 'unexpected helper call')
        if len(node.orelse) == 1 and isinstance(node.orelse[0], ast.If):
            node = node.orelse[0]
        else:
            if not (len(node.orelse) == 1 and isinstance(node.orelse[0], ast.Raise)):
                fail(node, 'expected final else: raise')
            break
    rest = [ast.unparse(s) for s in loop.body[1:]]
    if rest != ['low_weights.append(w_lo)', 'high_weights.append(w_hi)', 'edge_indices.append(edge)']:
        fail(loop, 'unexpected loop tail')
    if set(table) != {'nearest', 'linear'}:
        fail(fn, 'expected exactly the schemes nearest and linear')
    return table


def find_indices(fn):
    loop = [s for s in fn.body if isinstance(s, ast.For)]
    if len(loop) != 1 or txt(loop[0].target) != 'xi,cvec' or txt(loop[0].iter) != 'zipx,self.coord_vecs':
        fail(fn, 'unexpected loop in _find_indices')
    body = loop[0].body
    if len(body) != 6 or not isinstance(body[0], ast.Try):
        fail(loop[0], 'unexpected loop body')
    # the dtype cast of xi: value-preserving for the dtypes in scope (checked as text)
    if ast.unparse(body[0].body[0]) != "xi = np.asarray(xi).astype(self.values.dtype, casting='safe')":
        fail(body[0], 'unexpected cast of xi')
    if ast.unparse(body[1]) != 'idcs = np.searchsorted(cvec, xi) - 1':
        fail(body[1], 'unexpected index search')
    lines = ['  let idcs := (ss - 1)%Z in']

    def iex(n):
        if isinstance(n, ast.Name) and n.id == 'idcs':
            return 'idcs'
        if ast.unparse(n) == 'cvec.size':
            return 'size'
        if isinstance(n, ast.Constant) and isinstance(n.value, int):
            return '%d' % n.value
        if isinstance(n, ast.BinOp) and isinstance(n.op, (ast.Add, ast.Sub)):
            return '(%s %s %s)' % (iex(n.left), '+' if isinstance(n.op, ast.Add) else '-', iex(n.right))
        fail(n, 'index expression outside grammar')
    for s in body[2:4]:
        if not (isinstance(s, ast.Assign) and isinstance(s.targets[0], ast.Subscript)
                and ast.unparse(s.targets[0].value) == 'idcs' and isinstance(s.targets[0].slice, ast.Compare)):
            fail(s, 'expected idcs[CMP] = E')
        c = s.targets[0].slice
        a, b = iex(c.left), iex(c.comparators[0])
        if isinstance(c.ops[0], ast.Lt):
            test = '(%s <? %s)%%Z' % (a, b)
        elif isinstance(c.ops[0], ast.Gt):
            test = '(%s <? %s)%%Z' % (b, a)
        else:
            fail(c, 'comparison outside grammar')
        lines.append('  let idcs := if %s then (%s)%%Z else idcs in' % (test, iex(s.value)))
    if ast.unparse(body[4]) != 'index_vecs.append(idcs)':
        fail(body[4], 'unexpected statement')
    call = body[5].value if isinstance(body[5], ast.Expr) else None
    if not (isinstance(call, ast.Call) and ast.unparse(call.func) == 'norm_distances.append' and len(call.args) == 1):
        fail(body[5], 'expected norm_distances.append(E)')

    def rex(n):
        u = ast.unparse(n)
        if u == 'xi':
            return 'xi'
        if u == 'cvec[idcs]':
            return 'c_lo'
        if u == 'cvec[idcs + 1]':
            return 'c_hi'
        if isinstance(n, ast.BinOp):
            for k, v in ((ast.Add, '+'), (ast.Sub, '-'), (ast.Mult, '*'), (ast.Div, '/')):
                if isinstance(n.op, k):
                    return '(%s %s %s)' % (rex(n.left), v, rex(n.right))
        fail(n, 'normalised distance outside grammar')
    return ('Definition gen_cell_index (ss size : Z) : Z :=\n%s\n  idcs.\n'
            'Definition gen_norm_dist {T : Type} `{Num T} (xi c_lo c_hi : T) : T :=\n  %s.\n'
            % ('\n'.join(lines), rex(call.args[0])))


def nearest_pick(fn):
    loop = [s for s in fn.body if isinstance(s, ast.For)]
    if len(loop) != 1 or txt(loop[0].target) != 'i,yi' or \
            txt(loop[0].iter) != 'zipindices,norm_distances' or len(loop[0].body) != 1:
        fail(fn, 'unexpected loop in _NearestInterpolator._evaluate')
    s = loop[0].body[0]
    call = s.value if isinstance(s, ast.Expr) else None
    if not (isinstance(call, ast.Call) and ast.unparse(call.func) == 'idx_res.append' and len(call.args) == 1
            and is_np(call.args[0], 'where', 3)):
        fail(s, 'expected idx_res.append(np.where(CMP, I, I))')
    w = call.args[0]
    p = Prog(['yi'], ['i'])
    rest = [ast.unparse(x) for x in fn.body if not isinstance(x, (ast.For, ast.Expr))]
    if rest != ['idx_res = []', 'idx_res = tuple(idx_res)',
                'if out is not None:\n    out[:] = self.values[idx_res]\n    return out\nelse:\n    return self.values[idx_res]']:
        fail(fn, 'unexpected statements around the index loop')
    return ('Definition gen_nearest_pick {T : Type} `{Num T} (i : Z) (yi : T) : Z :=\n  if %s then %s else %s.\n'
            % (p.cmp(w.args[0]), p.iexpr(w.args[1]), p.iexpr(w.args[2])))


def translate():
    path = os.path.join(REPO, SRC)
    tree = ast.parse(open(path).read())
    top = {n.name: n for n in tree.body if isinstance(n, (ast.FunctionDef, ast.ClassDef))}

    def method(cls, name):
        if cls not in top:
            fail(None, 'class %s not found' % cls)
        for n in top[cls].body:
            if isinstance(n, ast.FunctionDef) and n.name == name:
                return n
        fail(top[cls], 'method %s not found' % name)
    for f in ('_compute_nearest_weights_edge', '_compute_linear_weights_edge', '_create_weight_edge_lists'):
        if f not in top:
            fail(None, 'function %s not found' % f)
    table = dispatch(top['_create_weight_edge_lists'])
    names = {'_compute_nearest_weights_edge': 'gen_nearest_weights_edge',
             '_compute_linear_weights_edge': 'gen_linear_weights_edge'}
    out = ['(* GENERATED by translate/interp_weights.py from %s -- do not edit *)' % SRC,
           'From Coq Require Import ZArith QArith List Bool.',
           'From Verif Require Import Base.Num C15.Syntax.',
           'Local Open Scope num_scope.', '']
    for py, cq in names.items():
        out.append(weights_fn(top[py], cq))
    out.append('Definition gen_weights_edge {T : Type} `{Num T} (s : scheme) : Z -> T -> axdat T :=\n'
               '  match s with SNearest => %s | SLinear => %s end.\n' % (names[table['nearest']], names[table['linear']]))
    out.append(find_indices(method('_Interpolator', '_find_indices')))
    out.append(nearest_pick(method('_NearestInterpolator', '_evaluate')))
    return '\n'.join(out)
