"""Fail-closed translator: odl/discr/discr_utils.py  ->  coq/Gen/InterpWeights.v

Translated (anything outside the grammar raises TranslateError):
  * _compute_nearest_weights_edge, _compute_linear_weights_edge: straight-line, element-wise
    programs over arrays.  Grammar of a body:
        NAME = np.asarray(NAME)                      (same name: no-op)
        MASK = CMP | np.where(CMP)                   boolean mask
        V = E                                        fresh array:  E := arithmetic | np.copy(E) | np.where(CMP, E, E)
        V[MASK] = E ;  V[MASK] += E                  masked update
        edge = [idcs, idcs + k] ; edge[j][MASK] = int
        return w_lo, w_hi, edge
    A bare `V = W` (alias) is rejected, and `idcs` may not be read after `edge` is built, so the
    element-wise reading is sound.
  * _create_weight_edge_lists: the dispatch  s == 'nearest' / 'linear'  to the two helpers.
  * _Interpolator._find_indices: the loop body
        idcs = np.searchsorted(cvec, xi) - 1 ; idcs[idcs < 0] = 0 ; idcs[idcs > cvec.size - 2] = cvec.size - 2
        norm_distances.append((xi - cvec[idcs]) / (cvec[idcs + 1] - cvec[idcs]))
  * _NearestInterpolator._evaluate:  idx_res.append(np.where(yi < .5, i, i + 1))
  * the factories: which evaluator class nearest_/linear_/per_axis_interpolator instantiate, the
    all(s == 'nearest' ...) dispatch of per_axis_interp, interp=['linear'] * d of _LinearInterpolator
  * odl/util/vectorization.py: is_valid_input_array, out_shape_from_array; _check_interp_input (array
    branch): how inputs of each shape are reshaped / classified as a single point / rejected
  * _Interpolator.__call__: the ordered `out` checks (not an array -> TypeError, wrong shape /
    dtype -> ValueError)
"""
import ast
import os
from fractions import Fraction

from harness.common import TranslateError, REPO

SRC = 'odl/discr/discr_utils.py'


def fail(node, why):
    raise TranslateError('%s:%s: %s: %s' % (SRC, getattr(node, 'lineno', '?'), why,
                                            ast.unparse(node)[:120] if node is not None else ''))


def txt(node):
    """Source text of a node with parentheses and blanks removed (robust across ast.unparse versions)."""
    return ast.unparse(node).replace('(', '').replace(')', '').replace(' ', '')


def is_np(node, name, nargs=None):
    ok = (isinstance(node, ast.Call) and isinstance(node.func, ast.Attribute) and node.func.attr == name
          and isinstance(node.func.value, ast.Name) and node.func.value.id == 'np' and not node.keywords)
    return ok and (nargs is None or len(node.args) == nargs)


def qlit(v):
    fr = Fraction(v)
    if fr == 0:
        return 'nzero'
    if fr == 1:
        return 'none_'
    n, d = fr.numerator, fr.denominator
    return 'of_Q (%d # %d)' % (n, d) if n >= 0 else 'of_Q ((%d) # %d)' % (n, d)


def num_const(node):
    if isinstance(node, ast.Constant) and isinstance(node.value, (int, float)) and not isinstance(node.value, bool):
        return node.value
    if isinstance(node, ast.UnaryOp) and isinstance(node.op, ast.USub):
        return -num_const(node.operand)
    fail(node, 'expected a numeric constant')


class Prog(object):
    """Element-wise compilation of one helper body."""

    def __init__(self, reals, ints):
        self.reals, self.ints, self.bools = set(reals), set(ints), set()
        self.lines = []
        self.edge = False

    def rexpr(self, n):
        if isinstance(n, ast.Name):
            if n.id not in self.reals:
                fail(n, 'not a real-valued array here')
            return n.id
        if isinstance(n, (ast.Constant, ast.UnaryOp)):
            return '(%s)' % qlit(num_const(n))
        if isinstance(n, ast.BinOp):
            for k, v in ((ast.Add, '+'), (ast.Sub, '-'), (ast.Mult, '*'), (ast.Div, '/')):
                if isinstance(n.op, k):
                    return '(%s %s %s)' % (self.rexpr(n.left), v, self.rexpr(n.right))
            fail(n, 'operator outside grammar')
        if is_np(n, 'copy', 1) or is_np(n, 'asarray', 1):
            return self.rexpr(n.args[0])
        if is_np(n, 'where', 3):
            return '(if %s then %s else %s)' % (self.cmp(n.args[0]), self.rexpr(n.args[1]), self.rexpr(n.args[2]))
        fail(n, 'real expression outside grammar')

    def cmp(self, n):
        if not (isinstance(n, ast.Compare) and len(n.ops) == 1):
            fail(n, 'expected a single comparison')
        a, b = self.rexpr(n.left), self.rexpr(n.comparators[0])
        op = n.ops[0]
        if isinstance(op, ast.Lt):
            return '(%s <? %s)' % (a, b)
        if isinstance(op, ast.Gt):
            return '(%s <? %s)' % (b, a)
        if isinstance(op, ast.LtE):
            return '(%s <=? %s)' % (a, b)
        if isinstance(op, ast.GtE):
            return '(%s <=? %s)' % (b, a)
        fail(n, 'comparison outside grammar')

    def iexpr(self, n):
        if isinstance(n, ast.Name):
            if n.id not in self.ints:
                fail(n, 'not an index array here (idcs is consumed once edge is built)')
            return n.id
        if isinstance(n, (ast.Constant, ast.UnaryOp)):
            v = num_const(n)
            if not isinstance(v, int):
                fail(n, 'expected an integer')
            return '(%d)%%Z' % v
        if isinstance(n, ast.BinOp) and isinstance(n.op, (ast.Add, ast.Sub)):
            return '(%s %s %s)%%Z' % (self.iexpr(n.left), '+' if isinstance(n.op, ast.Add) else '-', self.iexpr(n.right))
        fail(n, 'index expression outside grammar')

    def mask(self, n):
        if isinstance(n, ast.Name) and n.id in self.bools:
            return n.id
        fail(n, 'expected a mask name')

    def let(self, name, rhs):
        self.lines.append('  let %s := %s in' % (name, rhs))

    def stmt(self, s):
        if isinstance(s, ast.Expr) and isinstance(s.value, ast.Constant) and isinstance(s.value.value, str):
            return None                                          # docstring
        if isinstance(s, ast.Assign) and len(s.targets) == 1:
            t, v = s.targets[0], s.value
            if isinstance(t, ast.Name):
                if is_np(v, 'asarray', 1) and isinstance(v.args[0], ast.Name) and v.args[0].id == t.id:
                    return None                                  # x = np.asarray(x)
                if isinstance(v, ast.Compare) or is_np(v, 'where', 1):
                    self.let(t.id, self.cmp(v if isinstance(v, ast.Compare) else v.args[0]))
                    self.bools.add(t.id)
                    return None
                if isinstance(v, ast.List) and len(v.elts) == 2 and t.id == 'edge':
                    self.let('edge0', self.iexpr(v.elts[0]))
                    self.let('edge1', self.iexpr(v.elts[1]))
                    self.ints = {'edge0', 'edge1'}               # idcs is aliased by edge[0]: consumed
                    self.edge = True
                    return None
                if isinstance(v, ast.Name):
                    fail(s, 'bare alias assignment')
                self.let(t.id, self.rexpr(v))
                self.reals.add(t.id)
                return None
            if isinstance(t, ast.Subscript) and isinstance(t.value, ast.Name) and t.value.id in self.reals \
                    and t.value.id != 'ndist':
                m = self.mask(t.slice)
                self.let(t.value.id, '(if %s then %s else %s)' % (m, self.rexpr(v), t.value.id))
                return None
            if (isinstance(t, ast.Subscript) and isinstance(t.value, ast.Subscript) and self.edge
                    and isinstance(t.value.value, ast.Name) and t.value.value.id == 'edge'):
                k = num_const(t.value.slice)
                if k not in (0, 1):
                    fail(s, 'edge index')
                m = self.mask(t.slice)
                self.let('edge%d' % k, '(if %s then %s else edge%d)' % (m, self.iexpr(v), k))
                return None
            fail(s, 'assignment outside grammar')
        if isinstance(s, ast.AugAssign) and isinstance(s.op, ast.Add):
            t = s.target
            if isinstance(t, ast.Subscript) and isinstance(t.value, ast.Name) and t.value.id in self.reals \
                    and t.value.id != 'ndist':
                m = self.mask(t.slice)
                self.let(t.value.id, '(if %s then (%s + %s) else %s)' % (m, t.value.id, self.rexpr(s.value), t.value.id))
                return None
            fail(s, 'augmented assignment outside grammar')
        if isinstance(s, ast.Return):
            v = s.value
            if not (isinstance(v, ast.Tuple) and [ast.unparse(e) for e in v.elts] == ['w_lo', 'w_hi', 'edge']
                    and self.edge and {'w_lo', 'w_hi'} <= self.reals):
                fail(s, 'expected return w_lo, w_hi, edge')
            return '  mkax edge0 edge1 w_lo w_hi'
        fail(s, 'statement outside grammar')


def weights_fn(fn, coqname):
    if [a.arg for a in fn.args.args] != ['idcs', 'ndist']:
        fail(fn, 'expected arguments (idcs, ndist)')
    p = Prog(['ndist'], ['idcs'])
    ret = None
    for s in fn.body:
        if ret is not None:
            fail(s, 'statement after return')
        ret = p.stmt(s)
    if ret is None:
        fail(fn, 'no return')
    return ('Definition %s {T : Type} `{Num T} (idcs : Z) (ndist : T) : axdat T :=\n%s\n%s.\n'
            % (coqname, '\n'.join(p.lines), ret))


def dispatch(fn):
    """_create_weight_edge_lists: which helper serves which scheme name."""
    loop = [s for s in fn.body if isinstance(s, ast.For)]
    if len(loop) != 1:
        fail(fn, 'expected one loop')
    loop = loop[0]
    if txt(loop.target) != 'i,idcs,yi,s' or txt(loop.iter) != 'enumeratezipindices,norm_distances,interp':
        fail(loop, 'unexpected loop header')
    node = loop.body[0]
    table = {}
    while isinstance(node, ast.If):
        t = node.test
        if not (isinstance(t, ast.Compare) and ast.unparse(t.left) == 's' and isinstance(t.ops[0], ast.Eq)
                and isinstance(t.comparators[0], ast.Constant)):
            fail(t, 'expected s == <str>')
        if len(node.body) != 1:
            fail(node, 'expected a single call')
        b = txt(node.body[0])
        for helper in ('_compute_nearest_weights_edge', '_compute_linear_weights_edge'):
            if b == 'w_lo,w_hi,edge=%sidcs,yi' % helper and isinstance(node.body[0], ast.Assign):
                table[t.comparators[0].value] = helper
                break
        else:
            fail(node.body[0], 'unexpected helper call')
        if len(node.orelse) == 1 and isinstance(node.orelse[0], ast.If):
            node = node.orelse[0]
        else:
            if not (len(node.orelse) == 1 and isinstance(node.orelse[0], ast.Raise)):
                fail(node, 'expected final else: raise')
            break
    rest = [ast.unparse(s) for s in loop.body[1:]]
    if rest != ['low_weights.append(w_lo)', 'high_weights.append(w_hi)', 'edge_indices.append(edge)']:
        fail(loop, 'unexpected loop tail')
    if set(table) != {'nearest', 'linear'}:
        fail(fn, 'expected exactly the schemes nearest and linear')
    return table


def find_indices(fn):
    loop = [s for s in fn.body if isinstance(s, ast.For)]
    if len(loop) != 1 or txt(loop[0].target) != 'xi,cvec' or txt(loop[0].iter) != 'zipx,self.coord_vecs':
        fail(fn, 'unexpected loop in _find_indices')
    body = loop[0].body
    if len(body) != 6 or not isinstance(body[0], ast.Try):
        fail(loop[0], 'unexpected loop body')
    # the dtype cast of xi: value-preserving for the dtypes in scope (checked as text)
    if ast.unparse(body[0].body[0]) != "xi = np.asarray(xi).astype(self.values.dtype, casting='safe')":
        fail(body[0], 'unexpected cast of xi')
    if ast.unparse(body[1]) != 'idcs = np.searchsorted(cvec, xi) - 1':
        fail(body[1], 'unexpected index search')
    lines = ['  let idcs := (ss - 1)%Z in']

    def iex(n):
        if isinstance(n, ast.Name) and n.id == 'idcs':
            return 'idcs'
        if ast.unparse(n) == 'cvec.size':
            return 'size'
        if isinstance(n, ast.Constant) and isinstance(n.value, int):
            return '%d' % n.value
        if isinstance(n, ast.BinOp) and isinstance(n.op, (ast.Add, ast.Sub)):
            return '(%s %s %s)' % (iex(n.left), '+' if isinstance(n.op, ast.Add) else '-', iex(n.right))
        fail(n, 'index expression outside grammar')
    for s in body[2:4]:
        if not (isinstance(s, ast.Assign) and isinstance(s.targets[0], ast.Subscript)
                and ast.unparse(s.targets[0].value) == 'idcs' and isinstance(s.targets[0].slice, ast.Compare)):
            fail(s, 'expected idcs[CMP] = E')
        c = s.targets[0].slice
        a, b = iex(c.left), iex(c.comparators[0])
        if isinstance(c.ops[0], ast.Lt):
            test = '(%s <? %s)%%Z' % (a, b)
        elif isinstance(c.ops[0], ast.Gt):
            test = '(%s <? %s)%%Z' % (b, a)
        else:
            fail(c, 'comparison outside grammar')
        lines.append('  let idcs := if %s then (%s)%%Z else idcs in' % (test, iex(s.value)))
    if ast.unparse(body[4]) != 'index_vecs.append(idcs)':
        fail(body[4], 'unexpected statement')
    call = body[5].value if isinstance(body[5], ast.Expr) else None
    if not (isinstance(call, ast.Call) and ast.unparse(call.func) == 'norm_distances.append' and len(call.args) == 1):
        fail(body[5], 'expected norm_distances.append(E)')

    def rex(n):
        u = ast.unparse(n)
        if u == 'xi':
            return 'xi'
        if u == 'cvec[idcs]':
            return 'c_lo'
        if u == 'cvec[idcs + 1]':
            return 'c_hi'
        if isinstance(n, ast.BinOp):
            for k, v in ((ast.Add, '+'), (ast.Sub, '-'), (ast.Mult, '*'), (ast.Div, '/')):
                if isinstance(n.op, k):
                    return '(%s %s %s)' % (rex(n.left), v, rex(n.right))
        fail(n, 'normalised distance outside grammar')
    return ('Definition gen_cell_index (ss size : Z) : Z :=\n%s\n  idcs.\n'
            'Definition gen_norm_dist {T : Type} `{Num T} (xi c_lo c_hi : T) : T :=\n  %s.\n'
            % ('\n'.join(lines), rex(call.args[0])))


def nearest_pick(fn):
    loop = [s for s in fn.body if isinstance(s, ast.For)]
    if len(loop) != 1 or txt(loop[0].target) != 'i,yi' or \
            txt(loop[0].iter) != 'zipindices,norm_distances' or len(loop[0].body) != 1:
        fail(fn, 'unexpected loop in _NearestInterpolator._evaluate')
    s = loop[0].body[0]
    call = s.value if isinstance(s, ast.Expr) else None
    if not (isinstance(call, ast.Call) and ast.unparse(call.func) == 'idx_res.append' and len(call.args) == 1
            and is_np(call.args[0], 'where', 3)):
        fail(s, 'expected idx_res.append(np.where(CMP, I, I))')
    w = call.args[0]
    p = Prog(['yi'], ['i'])
    rest = [ast.unparse(x) for x in fn.body if not isinstance(x, (ast.For, ast.Expr))]
    if rest != ['idx_res = []', 'idx_res = tuple(idx_res)',
                'if out is not None:\n    out[:] = self.values[idx_res]\n    return out\nelse:\n    return self.values[idx_res]']:
        fail(fn, 'unexpected statements around the index loop')
    return ('Definition gen_nearest_pick {T : Type} `{Num T} (i : Z) (yi : T) : Z :=\n  if %s then %s else %s.\n'
            % (p.cmp(w.args[0]), p.iexpr(w.args[1]), p.iexpr(w.args[2])))


def inner_func(top, name):
    """The single nested function of a factory (nearest_interp / linear_interp / per_axis_interp)."""
    if name not in top:
        fail(None, 'function %s not found' % name)
    inner = [n for n in top[name].body if isinstance(n, ast.FunctionDef)]
    if len(inner) != 1:
        fail(top[name], 'expected one nested function')
    return inner[0]


def ctor_call(node, allowed):
    """`interpolator = <Class>(coord_vecs, f, [interp=interp,] input_type=x_type)` -> class name"""
    if not (isinstance(node, ast.Assign) and txt(node.targets[0]) == 'interpolator' and isinstance(node.value, ast.Call)
            and isinstance(node.value.func, ast.Name) and node.value.func.id in allowed):
        fail(node, 'expected interpolator = <one of %s>(...)' % (allowed,))
    call = node.value
    if [txt(a) for a in call.args] != ['coord_vecs', 'f']:
        fail(node, 'unexpected positional arguments')
    kws = sorted((k.arg, txt(k.value)) for k in call.keywords)
    want = [('input_type', 'x_type')] + ([('interp', 'interp')] if call.func.id == '_PerAxisInterpolator' else [])
    if kws != sorted(want):
        fail(node, 'unexpected keyword arguments')
    return call.func.id


def factories(top):
    """Which evaluator class each public factory instantiates (and under which condition)."""
    cls = ('_NearestInterpolator', '_LinearInterpolator', '_PerAxisInterpolator')
    out = {}
    for fac in ('nearest_interpolator', 'linear_interpolator'):
        fn = inner_func(top, fac)
        body = [s for s in fn.body if not (isinstance(s, ast.Expr) and isinstance(s.value, ast.Constant))]
        if len(body) < 2 or txt(body[0]) != 'x,x_type,x_is_scalar=_check_interp_inputx,f':
            fail(fn, 'unexpected start of %s' % fac)
        out[fac] = ctor_call(body[1], cls)
    fn = inner_func(top, 'per_axis_interpolator')
    body = [s for s in fn.body if not (isinstance(s, ast.Expr) and isinstance(s.value, ast.Constant))]
    if len(body) < 2 or txt(body[0]) != 'x,x_type,x_is_scalar=_check_interp_inputx,f' or not isinstance(body[1], ast.If):
        fail(fn, 'unexpected start of per_axis_interp')
    node = body[1]
    t = node.test
    if not (isinstance(t, ast.Call) and isinstance(t.func, ast.Name) and t.func.id in ('all', 'any') and len(t.args) == 1
            and isinstance(t.args[0], ast.GeneratorExp) and len(t.args[0].generators) == 1
            and txt(t.args[0].generators[0].target) == 's' and txt(t.args[0].generators[0].iter) == 'interp'
            and not t.args[0].generators[0].ifs):
        fail(t, 'expected all/any(<test on s> for s in interp)')
    e = t.args[0].elt
    if not (isinstance(e, ast.Compare) and txt(e.left) == 's' and len(e.ops) == 1 and isinstance(e.ops[0], (ast.Eq, ast.NotEq))
            and isinstance(e.comparators[0], ast.Constant) and e.comparators[0].value in ('nearest', 'linear')):
        fail(e, "expected s ==/!= 'nearest'/'linear'")
    if len(node.body) != 1 or len(node.orelse) != 1:
        fail(node, 'expected one constructor call per branch')
    then_c, else_c = ctor_call(node.body[0], cls), ctor_call(node.orelse[0], cls)
    quant = 'forallb' if t.func.id == 'all' else 'existsb'
    which = {'nearest': 'SNearest', 'linear': 'SLinear'}[e.comparators[0].value]
    eq = isinstance(e.ops[0], ast.Eq)
    test = '%s (fun s => match s with %s => %s | _ => %s end) ss' % (quant, which, 'true' if eq else 'false',
                                                                   'false' if eq else 'true')
    out['per_axis'] = (test, then_c, else_c)
    return out


def linear_schemes(top):
    """_LinearInterpolator.__init__: interp=['linear'] * len(coord_vecs)"""
    if '_LinearInterpolator' not in top:
        fail(None, 'class _LinearInterpolator not found')
    init = [n for n in top['_LinearInterpolator'].body if isinstance(n, ast.FunctionDef) and n.name == '__init__']
    if len(init) != 1:
        fail(top['_LinearInterpolator'], 'no __init__')
    body = [s for s in init[0].body if not (isinstance(s, ast.Expr) and isinstance(s.value, ast.Constant))]
    if len(body) != 1 or txt(body[0]) != "super_LinearInterpolator,self.__init__coord_vecs,values,input_type,interp=['linear']*lencoord_vecs":
        fail(init[0], 'unexpected _LinearInterpolator.__init__')
    if [b.id for b in top['_LinearInterpolator'].bases if isinstance(b, ast.Name)] != ['_PerAxisInterpolator']:
        fail(top['_LinearInterpolator'], 'unexpected base class')
    return 'SLinear'


def out_checks(fn):
    """_Interpolator.__call__:  if out is not None: (if COND: raise Err)*  -> ordered decision list"""
    blocks = [s for s in fn.body if isinstance(s, ast.If) and txt(s.test) == 'outisnotNone']
    if len(blocks) != 1:
        fail(fn, 'expected one `if out is not None` block')
    conds = {'notisinstanceout,np.ndarray': 'negb is_array', 'out.shape!=out_shape': 'negb shape_ok',
             'out.dtype!=self.values.dtype': 'negb dtype_ok'}
    errs = {'TypeError': 'ETypeErr', 'ValueError': 'EValueErr'}
    lines = []
    for s in blocks[0].body:
        if not (isinstance(s, ast.If) and not s.orelse and len(s.body) == 1 and isinstance(s.body[0], ast.Raise)
                and isinstance(s.body[0].exc, ast.Call) and isinstance(s.body[0].exc.func, ast.Name)):
            fail(s, 'expected `if COND: raise Err(...)`')
        c, e = txt(s.test), s.body[0].exc.func.id
        if c not in conds or e not in errs:
            fail(s, 'condition or error class outside grammar')
        lines.append('  if %s then Some %s else' % (conds[c], errs[e]))
    return ('Definition gen_out_check (is_array shape_ok dtype_ok : bool) : option errkind :=\n%s\n  None.\n'
            % '\n'.join(lines))


# ---------------------------------------------------------------- input conventions
VSRC = 'odl/util/vectorization.py'


def shape_atom(n, xname, extra):
    """Integer-valued atoms of the shape tests."""
    u = txt(n)
    table = {xname + '.ndim': 'length xshape', xname + '.size': 'prodn xshape',
             xname + '.shape[0]': 'nth 0%nat xshape 0%nat', xname + '.shape[1]': 'nth 1%nat xshape 0%nat'}
    table.update(extra)
    if u in table:
        return '(%s)' % table[u]
    if isinstance(n, ast.Constant) and isinstance(n.value, int) and not isinstance(n.value, bool) and n.value >= 0:
        return '%d%%nat' % n.value
    fail(n, 'integer atom outside grammar')


def shape_tuple(n, xname, extra):
    """A literal shape: () or (a,) or (a, b)"""
    if not isinstance(n, ast.Tuple):
        fail(n, 'expected a tuple')
    return '[%s]' % '; '.join(shape_atom(e, xname, extra) for e in n.elts)


def shape_test(n, xname, extra):
    """Boolean tests on shapes: and / or of comparisons (==, >) between integer atoms or x.shape == tuple."""
    if isinstance(n, ast.BoolOp):
        op = ' && ' if isinstance(n.op, ast.And) else ' || '
        return '(%s)' % op.join(shape_test(v, xname, extra) for v in n.values)
    if isinstance(n, ast.Compare) and len(n.ops) == 1:
        l, r, op = n.left, n.comparators[0], n.ops[0]
        if txt(l) == 'ndim' and isinstance(op, ast.Is) and txt(r) == 'None':
            return 'false'                        # ndim is always given by the callers modelled here
        if txt(l) == xname + '.shape' and isinstance(op, ast.Eq):
            return '(nats_eqb xshape %s)' % shape_tuple(r, xname, extra)
        a, b = shape_atom(l, xname, extra), shape_atom(r, xname, extra)
        if isinstance(op, ast.Eq):
            return '(%s =? %s)%%nat' % (a, b)
        if isinstance(op, ast.Gt):
            return '(%s <? %s)%%nat' % (b, a)
    fail(n, 'shape test outside grammar')


def valid_input_array(vtop):
    fn = vtop.get('is_valid_input_array')
    if fn is None or [a.arg for a in fn.args.args] != ['x', 'ndim']:
        fail(fn, 'is_valid_input_array(x, ndim) not found')
    body = [s for s in fn.body if not (isinstance(s, ast.Expr) and isinstance(s.value, ast.Constant))]
    if len(body) != 2 or txt(body[0]) != 'try:\nx=np.asarrayx\nexceptValueError:\nreturnFalse' or not isinstance(body[1], ast.If):
        fail(fn, 'unexpected body of is_valid_input_array')
    node = body[1]
    if not (len(node.body) == 1 and isinstance(node.body[0], ast.Return) and len(node.orelse) == 1
            and isinstance(node.orelse[0], ast.Return)):
        fail(node, 'expected if T: return E else: return E')
    ex = {'ndim': 'ndim'}
    return ('Definition gen_is_valid_input_array (xshape : list nat) (ndim : nat) : bool :=\n'
            '  if %s then %s else %s.\n'
            % (shape_test(node.test, 'x', ex), shape_test(node.body[0].value, 'x', ex),
               shape_test(node.orelse[0].value, 'x', ex)))


def out_shape_from_array(vtop):
    fn = vtop.get('out_shape_from_array')
    body = [s for s in fn.body if not (isinstance(s, ast.Expr) and isinstance(s.value, ast.Constant))] if fn else []
    if len(body) != 2 or txt(body[0]) != 'arr=np.asarrayarr' or not isinstance(body[1], ast.If):
        fail(fn, 'unexpected body of out_shape_from_array')
    node = body[1]
    if not (txt(node.body[0]) == 'returnarr.shape' and len(node.orelse) == 1 and isinstance(node.orelse[0], ast.Return)):
        fail(node, 'unexpected branches of out_shape_from_array')
    return ('Definition gen_out_shape_from_array (xshape : list nat) : list nat :=\n  if %s then xshape else %s.\n'
            % (shape_test(node.test, 'arr', {}), shape_tuple(node.orelse[0].value, 'arr', {})))


def check_interp_input(top):
    """The array branch of _check_interp_input: how a non-meshgrid input is reshaped, whether it denotes a
    single point, and when it is rejected."""
    fn = top.get('_check_interp_input')
    if fn is None:
        fail(None, '_check_interp_input not found')
    ifs = [s for s in fn.body if isinstance(s, ast.If)]
    if len(ifs) != 1 or txt(ifs[0].test) != 'is_valid_input_meshgridx,f.ndim':
        fail(fn, 'expected if is_valid_input_meshgrid(x, f.ndim): ... else: ...')
    if [txt(s) for s in ifs[0].body] != ['x_is_scalar=False', "x_type='meshgrid'"]:
        fail(ifs[0], 'unexpected meshgrid branch')
    els = ifs[0].orelse
    if len(els) != 4 or txt(els[0]) != 'x=np.asarrayx' or not isinstance(els[1], ast.If) or \
            txt(els[3]) != "x_type='array'" or not isinstance(els[2], ast.If):
        fail(ifs[0], 'unexpected array branch')
    if not (txt(els[2].test) == 'notis_valid_input_arrayx,f.ndim' and isinstance(els[2].body[-1], ast.Raise)
            and txt(els[2].body[-1].exc) in ('ValueErrorerrmsg',) and not els[2].orelse):
        fail(els[2], 'expected `if not is_valid_input_array(x, f.ndim): ... raise ValueError(errmsg)`')
    ex = {'f.ndim': 'fndim'}
    node, arms = els[1], []
    while True:
        def arm(body):
            d = {}
            for st in body:
                u = txt(st)
                if u in ('x_is_scalar=True', 'x_is_scalar=False'):
                    d['scalar'] = 'true' if u.endswith('True') else 'false'
                elif (isinstance(st, ast.Assign) and txt(st.targets[0]) == 'x' and isinstance(st.value, ast.Call)
                      and txt(st.value.func) == 'x.reshape' and len(st.value.args) == 1):
                    d['shape'] = shape_tuple(st.value.args[0], 'x', ex)
                else:
                    fail(st, 'statement outside grammar in _check_interp_input')
            if 'scalar' not in d:
                fail(body[0], 'x_is_scalar not set')
            return '(%s, %s)' % (d.get('shape', 'xshape'), d['scalar'])
        arms.append((shape_test(node.test, 'x', ex), arm(node.body)))
        if len(node.orelse) == 1 and isinstance(node.orelse[0], ast.If):
            node = node.orelse[0]
        else:
            last = arm(node.orelse)
            break
    chain = ''.join('    if %s then %s else\n' % a for a in arms) + '    %s' % last
    return ('(* None = ValueError; Some (shape after reshaping, input denotes a single point) *)\n'
            'Definition gen_check_array_input (fndim : nat) (xshape : list nat) : option (list nat * bool) :=\n'
            '  let r :=\n%s in\n'
            '  if negb (gen_is_valid_input_array (fst r) fndim) then None else Some r.\n' % chain)


def translate():
    path = os.path.join(REPO, SRC)
    tree = ast.parse(open(path).read())
    top = {n.name: n for n in tree.body if isinstance(n, (ast.FunctionDef, ast.ClassDef))}

    def method(cls, name):
        if cls not in top:
            fail(None, 'class %s not found' % cls)
        for n in top[cls].body:
            if isinstance(n, ast.FunctionDef) and n.name == name:
                return n
        fail(top[cls], 'method %s not found' % name)
    for f in ('_compute_nearest_weights_edge', '_compute_linear_weights_edge', '_create_weight_edge_lists'):
        if f not in top:
            fail(None, 'function %s not found' % f)
    table = dispatch(top['_create_weight_edge_lists'])
    names = {'_compute_nearest_weights_edge': 'gen_nearest_weights_edge',
             '_compute_linear_weights_edge': 'gen_linear_weights_edge'}
    out = ['(* GENERATED by translate/interp_weights.py from %s -- do not edit *)' % SRC,
           'From Coq Require Import ZArith QArith List Bool.',
           'From Verif Require Import Base.Num C15.Syntax.',
           'Import ListNotations.',
           'Local Open Scope num_scope.', '']
    for py, cq in names.items():
        out.append(weights_fn(top[py], cq))
    out.append('Definition gen_weights_edge {T : Type} `{Num T} (s : scheme) : Z -> T -> axdat T :=\n'
               '  match s with SNearest => %s | SLinear => %s end.\n' % (names[table['nearest']], names[table['linear']]))
    out.append(find_indices(method('_Interpolator', '_find_indices')))
    out.append(nearest_pick(method('_NearestInterpolator', '_evaluate')))
    # which evaluator serves which factory
    fac = factories(top)
    if fac['nearest_interpolator'] != '_NearestInterpolator' or fac['linear_interpolator'] != '_LinearInterpolator':
        fail(None, 'nearest_/linear_interpolator instantiate an unexpected class')
    test, then_c, else_c = fac['per_axis']
    kinds = {'_NearestInterpolator': 'true', '_PerAxisInterpolator': 'false'}
    if then_c not in kinds or else_c not in kinds:
        fail(None, 'per_axis_interpolator instantiates an unexpected class')
    out.append('(* per_axis_interpolator: true = served by the index-based _NearestInterpolator,\n'
               '   false = by the arithmetic _PerAxisInterpolator *)\n'
               'Definition gen_peraxis_index_based (ss : list scheme) : bool :=\n  if %s then %s else %s.\n'
               % (test, kinds[then_c], kinds[else_c]))
    out.append('(* linear_interpolator = per-axis evaluation with this scheme on every axis *)\n'
               'Definition gen_linear_scheme : scheme := %s.\n' % linear_schemes(top))
    out.append(out_checks(method('_Interpolator', '__call__')))
    # input conventions (odl/util/vectorization.py + _check_interp_input)
    vtree = ast.parse(open(os.path.join(REPO, VSRC)).read())
    vtop = {n.name: n for n in vtree.body if isinstance(n, ast.FunctionDef)}
    out.append(valid_input_array(vtop))
    out.append(out_shape_from_array(vtop))
    out.append(check_interp_input(top))
    return '\n'.join(out)
