"""Fail-closed translator:  grad_lipschitz / linear of every functional class  ->  coq/Gen/FunctionalLip.v

For every derived class of odl/solvers/functional/functional.py and the leaves of
default_functionals.py that C09 models, the `grad_lipschitz=` and `linear=` arguments of the base-class
initialisation in `__init__` (and the local assignments to `grad_lipschitz` feeding it) are read from the
CURRENT source and emitted as Gallina functions over the model's float type `lip`:

    gen_lip_<Class> : <scalars> -> <operand constants> -> lip
    gen_lin_<Class> : <operand flags / scalars> -> bool

coq/C09/GenTie.v proves that the hand-written `lipschitz` / `is_linear` of C09/Model.v ARE these functions, so a
change of a formula in the source breaks a proof (not only the correspondence).

Grammar (anything else raises TranslateError):
  lip  := X.grad_lipschitz | np.nan | np.inf | <number> | grad_lipschitz (local, straight-line or one if/else)
        | scal * lip | lip + lip | lip + X.norm() | lip + scal
  scal := np.abs(v) | abs(v) | scal ** 2 | <number> * scal | 1 / v | v          (v a name or self.attr)
  bool := False | True | X.is_linear | bool and bool | v == 0 | (bool)
  if-tests: `<name> is None`, `self.<attr> > 0`.
"""
import ast
import os

from harness.common import TranslateError, REPO

FN = 'odl/solvers/functional/functional.py'
DF = 'odl/solvers/functional/default_functionals.py'

# (coq suffix, file, class, operand names (functionals), scalar names -> coq var)
CLASSES = [
    ('LeftScalarMult', FN, 'FunctionalLeftScalarMult'),
    ('RightScalarMult', FN, 'FunctionalRightScalarMult'),
    ('Comp', FN, 'FunctionalComp'),
    ('RightVectorMult', FN, 'FunctionalRightVectorMult'),
    ('Sum', FN, 'FunctionalSum'),
    ('Translation', FN, 'FunctionalTranslation'),
    ('QuadraticPerturb', FN, 'FunctionalQuadraticPerturb'),
    ('Product', FN, 'FunctionalProduct'),
    ('Quotient', FN, 'FunctionalQuotient'),
    ('BregmanDistance', FN, 'BregmanDistance'),
    ('L2NormSquared', DF, 'L2NormSquared'),
    ('ConstantFunctional', DF, 'ConstantFunctional'),
    ('Huber', DF, 'Huber'),
    ('LpNorm', DF, 'LpNorm'),
    ('QuadraticForm', DF, 'QuadraticForm'),
]

_trees = {}


def _tree(rel):
    if rel not in _trees:
        with open(os.path.join(REPO, rel)) as fh:
            _trees[rel] = ast.parse(fh.read())
    return _trees[rel]


def fail(rel, node, why):
    raise TranslateError('%s:%s: %s: %s' % (rel, getattr(node, 'lineno', '?'), why,
                                            ast.unparse(node)[:160] if node is not None else ''))


def _classdef(rel, name):
    for n in _tree(rel).body:
        if isinstance(n, ast.ClassDef) and n.name == name:
            return n
    fail(rel, None, 'class %s not found' % name)


def _init(rel, cls):
    for n in cls.body:
        if isinstance(n, ast.FunctionDef) and n.name == '__init__':
            return n
    fail(rel, cls, 'no __init__')


def _is_functional_init(call):
    """Functional.__init__(self, ...) or super(C, self).__init__(...) (C's functional base)"""
    f = call.func
    if not (isinstance(f, ast.Attribute) and f.attr == '__init__'):
        return None
    if isinstance(f.value, ast.Name) and f.value.id == 'Functional':
        return 'explicit'
    if isinstance(f.value, ast.Call) and isinstance(f.value.func, ast.Name) and f.value.func.id == 'super':
        return 'super'
    return None


class Ctx(object):
    def __init__(self, rel):
        self.rel = rel
        self.vars = {}      # coq variable name -> coq type ('T' | 'lip' | 'bool' | 'option T')
        self.order = []

    def var(self, name, ty):
        if name not in self.vars:
            self.vars[name] = ty
            self.order.append(name)
        elif self.vars[name] != ty:
            raise TranslateError('%s: variable %s used at two types' % (self.rel, name))
        return name


def _vname(node, ctx):
    """a scalar variable: Name or self.attr / self.__attr"""
    if isinstance(node, ast.Name):
        return node.id
    if isinstance(node, ast.Attribute) and isinstance(node.value, ast.Name) and node.value.id == 'self':
        return node.attr.lstrip('_')
    fail(ctx.rel, node, 'not a scalar variable')


def scal(node, ctx):
    if isinstance(node, ast.Call) and not node.keywords and len(node.args) == 1:
        f = node.func
        if (isinstance(f, ast.Attribute) and isinstance(f.value, ast.Name) and f.value.id == 'np' and f.attr == 'abs') \
                or (isinstance(f, ast.Name) and f.id == 'abs'):
            return '(nabs %s)' % ctx.var(_vname(node.args[0], ctx), 'T')
    if isinstance(node, ast.BinOp) and isinstance(node.op, ast.Pow) and isinstance(node.right, ast.Constant) \
            and node.right.value == 2:
        a = scal(node.left, ctx)
        return '(%s * %s)' % (a, a)
    if isinstance(node, ast.BinOp) and isinstance(node.op, ast.Mult) and isinstance(node.left, ast.Constant) \
            and isinstance(node.left.value, int):
        return '(of_Z %d * %s)' % (node.left.value, scal(node.right, ctx))
    if isinstance(node, ast.BinOp) and isinstance(node.op, ast.Div) and isinstance(node.left, ast.Constant) \
            and node.left.value == 1:
        return '(none_ / %s)' % ctx.var(_vname(node.right, ctx), 'T')
    if isinstance(node, (ast.Name, ast.Attribute)):
        return ctx.var(_vname(node, ctx), 'T')
    fail(ctx.rel, node, 'scalar expression outside the grammar')


def _is_lipattr(node):
    return isinstance(node, ast.Attribute) and node.attr == 'grad_lipschitz' and isinstance(node.value, ast.Name)


def _is_norm_call(node):
    return (isinstance(node, ast.Call) and not node.args and not node.keywords
            and isinstance(node.func, ast.Attribute) and node.func.attr == 'norm')


def lipx(node, ctx, local):
    """translate a grad_lipschitz expression; `local` = current value of the local variable (or None)"""
    if _is_lipattr(node):
        return ctx.var('L_' + node.value.id, 'lip')
    if isinstance(node, ast.Attribute) and isinstance(node.value, ast.Name) and node.value.id == 'np':
        if node.attr == 'nan':
            return 'LNan'
        if node.attr == 'inf':
            return 'LInf'
    if isinstance(node, ast.Constant) and isinstance(node.value, (int, float)) and not isinstance(node.value, bool):
        if float(node.value) != int(node.value):
            fail(ctx.rel, node, 'non-integer constant')
        return '(LFin (of_Z %d))' % int(node.value)
    if isinstance(node, ast.Name) and node.id == 'grad_lipschitz':
        if local is None:
            fail(ctx.rel, node, 'local grad_lipschitz read before assignment')
        return local
    if isinstance(node, ast.BinOp) and isinstance(node.op, ast.Mult):
        return '(lip_scale %s %s)' % (scal(node.left, ctx), lipx(node.right, ctx, local))
    if isinstance(node, ast.BinOp) and isinstance(node.op, ast.Add):
        left = lipx(node.left, ctx, local)
        r = node.right
        if _is_norm_call(r):
            # X.norm() / self.X.norm(): the norm of a stored vector enters as a scalar parameter
            base = r.func.value
            nm = base.id if isinstance(base, ast.Name) else _vname(base, ctx)
            return '(lip_add %s (LFin %s))' % (left, ctx.var('norm_' + nm, 'T'))
        if _is_lipattr(r) or (isinstance(r, ast.Name) and r.id == 'grad_lipschitz'):
            return '(lip_add %s %s)' % (left, lipx(r, ctx, local))
        return '(lip_add %s (LFin %s))' % (left, scal(r, ctx))
    # a plain scalar expression used as the constant (Huber: 1 / self.gamma)
    return '(LFin %s)' % scal(node, ctx)


def boolx(node, ctx):
    if isinstance(node, ast.Constant) and node.value in (True, False):
        return 'true' if node.value else 'false'
    if isinstance(node, ast.Attribute) and node.attr == 'is_linear' and isinstance(node.value, ast.Name):
        return ctx.var('lin_' + node.value.id, 'bool')
    if isinstance(node, ast.BoolOp) and isinstance(node.op, ast.And):
        return '(' + ' && '.join(boolx(v, ctx) for v in node.values) + ')'
    if isinstance(node, ast.Compare) and len(node.ops) == 1 and isinstance(node.ops[0], ast.Eq) \
            and isinstance(node.comparators[0], ast.Constant) and node.comparators[0].value == 0:
        return '(%s =? nzero)' % ctx.var(_vname(node.left, ctx), 'T')
    if isinstance(node, ast.Compare) and len(node.ops) == 1 and isinstance(node.ops[0], ast.Is) \
            and isinstance(node.comparators[0], ast.Constant) and node.comparators[0].value is None:
        return ctx.var(_vname(node.left, ctx) + '_is_none', 'bool')
    fail(ctx.rel, node, 'boolean expression outside the grammar')


def _local_flow(rel, init, ctx):
    """symbolic value of the local variable `grad_lipschitz` after the straight-line / if-else assignments"""
    local = None
    for st in init.body:
        if isinstance(st, ast.Assign) and len(st.targets) == 1 and isinstance(st.targets[0], ast.Name) \
                and st.targets[0].id == 'grad_lipschitz':
            local = lipx(st.value, ctx, local)
        elif isinstance(st, ast.If):
            def branch(body):
                val, found = local, False
                for b in body:
                    if isinstance(b, ast.Assign) and len(b.targets) == 1 and isinstance(b.targets[0], ast.Name) \
                            and b.targets[0].id == 'grad_lipschitz':
                        val, found = lipx(b.value, ctx, val), True
                    elif any(isinstance(n, ast.Name) and n.id == 'grad_lipschitz' and isinstance(n.ctx, ast.Store)
                             for n in ast.walk(b)):
                        fail(rel, b, 'nested assignment to grad_lipschitz')
                return val, found
            t, ft = branch(st.body)
            e, fe = branch(st.orelse)
            if not (ft or fe):
                continue
            if t is None or e is None:
                fail(rel, st, 'grad_lipschitz assigned in one branch only, without a prior value')
            test = st.test
            if isinstance(test, ast.Compare) and len(test.ops) == 1 and isinstance(test.ops[0], ast.Is) \
                    and isinstance(test.comparators[0], ast.Constant) and test.comparators[0].value is None:
                # `if linear_term is None`: the else-branch uses norm_<x>; emit a match on an option
                nm = _vname(test.left, ctx)
                nv = 'norm_' + nm
                if nv in ctx.vars:
                    del ctx.vars[nv]
                    ctx.order.remove(nv)
                ov = ctx.var('onorm_' + nm, 'option T')
                local = '(match %s with None => %s | Some %s => %s end)' % (ov, t, nv, e)
            elif isinstance(test, ast.Compare) and len(test.ops) == 1 and isinstance(test.ops[0], ast.Gt) \
                    and isinstance(test.comparators[0], ast.Constant) and test.comparators[0].value == 0:
                local = '(if nzero <? %s then %s else %s)' % (ctx.var(_vname(test.left, ctx), 'T'), t, e)
            else:
                fail(rel, st, 'if-test outside the grammar')
    return local


def _one(rel, clsname):
    cls = _classdef(rel, clsname)
    init = _init(rel, cls)
    calls = [n for n in ast.walk(init) if isinstance(n, ast.Call) and _is_functional_init(n)]
    # the Functional initialisation carrying grad_lipschitz: explicit Functional.__init__ preferred, else super()
    cand = [c for c in calls if _is_functional_init(c) == 'explicit'] or calls
    if len(cand) != 1:
        fail(rel, init, 'expected exactly one Functional initialisation in %s.__init__, found %d' % (clsname, len(cand)))
    call = cand[0]
    lctx, bctx = Ctx(rel), Ctx(rel)
    local = _local_flow(rel, init, lctx)
    kw = dict((k.arg, k.value) for k in call.keywords)
    args = list(call.args)
    if _is_functional_init(call) == 'explicit':
        args = args[1:]            # self
    # positional (space, linear, grad_lipschitz)
    if len(args) > 1 and 'linear' not in kw:
        kw['linear'] = args[1]
    if len(args) > 2 and 'grad_lipschitz' not in kw:
        kw['grad_lipschitz'] = args[2]
    lip = lipx(kw['grad_lipschitz'], lctx, local) if 'grad_lipschitz' in kw else 'LNan'   # default np.nan
    lin = boolx(kw['linear'], bctx) if 'linear' in kw else 'false'                         # default False
    return lip, lctx, lin, bctx


def _binders(ctx):
    return ''.join(' (%s : %s)' % (v, ctx.vars[v]) for v in ctx.order)


def translate():
    out = ['(* GENERATED by translate/functional_lipschitz.py from %s and %s -- do not edit. *)' % (FN, DF),
           'From Coq Require Import ZArith List Bool.',
           'From Verif Require Import Base.Num C09.Model.',
           'Local Open Scope num_scope.',
           'Section Gen.',
           'Context {T : Type} `{Num T}.',
           '']
    # the default of Functional.__init__ itself
    fcls = _classdef(FN, 'Functional')
    finit = _init(FN, fcls)
    defaults = dict(zip([a.arg for a in finit.args.args][-len(finit.args.defaults):], finit.args.defaults))
    if ast.unparse(defaults.get('grad_lipschitz')) != 'np.nan' or ast.unparse(defaults.get('linear')) != 'False':
        fail(FN, finit, 'defaults of Functional.__init__ changed')
    out.append('Definition gen_lip_default : @lip T := LNan.   (* Functional.__init__(grad_lipschitz=np.nan) *)')
    out.append('Definition gen_lin_default : bool := false.      (* Functional.__init__(linear=False) *)')
    for suffix, rel, name in CLASSES:
        lip, lctx, lin, bctx = _one(rel, name)
        out.append('(* %s.__init__ *)' % name)
        out.append('Definition gen_lip_%s%s : @lip T := %s.' % (suffix, _binders(lctx), lip))
        out.append('Definition gen_lin_%s%s : bool := %s.' % (suffix, _binders(bctx), lin))
    out.append('End Gen.')
    return '\n'.join(out) + '\n'


if __name__ == '__main__':
    print(translate())
