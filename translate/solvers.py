"""Translate the preamble and the loop body of the iterative solvers from
/repo's current source into the small imperative language of coq/C11/Syntax.v
(Python names bound to mutable vector objects) -> coq/Gen/Solvers.v.

Fail closed: every statement must match one of the patterns below, otherwise
TranslateError.  What is NOT translated but assumed, per solver (CONFIG):
  * which names are scalars (step sizes, counters) -- scalar preparation
    statements of a fixed shape (float(.), int(.), kwargs.pop, pdhg_stepsize)
    are skipped, scalars are parameters of the interpretation;
  * the value of configuration tests (`callback is not None` -> True,
    `gamma_primal is not None` -> False, ...): the listed branch is taken;
  * input validation (`if ...: raise ...`) is skipped.
"""
import ast
import os

from harness import common as C


class Ctx(object):
    def __init__(self, name, cfg):
        self.name = name
        self.scalars = set(cfg['scalars'])
        self.vectors = set(cfg['vectors'])          # vector-valued names (parameters first)
        self.optional = set(cfg.get('optional', ()))  # optional vector keyword parameters
        self.flags = dict(cfg.get('flags', {}))     # unparsed test -> bool
        self.ops = set(cfg['operators'])            # names of operator / functional parameters
        self.alias = {}                             # local name -> canonical operator expression (string)
        self.spaces = {}                            # local name -> canonical space expression
        self.lists = set(cfg.get('lists', ()))
        self.pre, self.body = [], None
        self.symbols = set()
        self.loopvar = None

    def err(self, node, why):
        raise C.TranslateError('%s line %s: %s: %s' % (self.name, getattr(node, 'lineno', '?'), why,
                                                        ast.unparse(node)[:120]))


def cstr(s):
    return '"%s"' % s


# ------------------------------------------------------------------ scalars
def is_scalar(ctx, e):
    if isinstance(e, ast.Constant) and isinstance(e.value, (int, float)) and not isinstance(e.value, bool):
        return True
    if isinstance(e, ast.Name):
        return e.id in ctx.scalars
    if isinstance(e, ast.UnaryOp) and isinstance(e.op, ast.USub):
        return is_scalar(ctx, e.operand)
    if isinstance(e, ast.BinOp) and isinstance(e.op, (ast.Add, ast.Sub, ast.Mult, ast.Div)):
        return is_scalar(ctx, e.left) and is_scalar(ctx, e.right)
    return False


def sx(ctx, e):
    if isinstance(e, ast.Constant):
        v = e.value
        if isinstance(v, int) or float(v).is_integer():
            return '(SInt %s)' % C.z(int(v))
        return '(SNum %s)' % C.q(v)
    if isinstance(e, ast.Name):
        return '(SPar %s)' % cstr(e.id)
    if isinstance(e, ast.UnaryOp):
        return '(SNeg %s)' % sx(ctx, e.operand)
    op = {ast.Add: 'SAdd', ast.Sub: 'SSub', ast.Mult: 'SMul', ast.Div: 'SDiv'}[type(e.op)]
    return '(%s %s %s)' % (op, sx(ctx, e.left), sx(ctx, e.right))


# ---------------------------------------------------------------- operators
def op_symbol(ctx, f):
    """canonical string of an operator-valued expression, or None"""
    if isinstance(f, ast.Name):
        if f.id in ctx.alias:
            return ctx.alias[f.id]
        if f.id in ctx.ops:
            return f.id
        return None
    if isinstance(f, ast.Attribute):
        base = op_symbol(ctx, f.value)
        if base is None:
            return None
        return base + '.' + f.attr
    if isinstance(f, ast.Call) and not f.keywords and len(f.args) == 1 and is_scalar(ctx, f.args[0]):
        # f.proximal(tau)  or  proximal_dual(sigma) with proximal_dual = g.convex_conj.proximal
        base = op_symbol(ctx, f.func)
        if base is None or not base.endswith('.proximal'):
            return None
        return '%s(%s)' % (base, ast.unparse(f.args[0]))
    return None


def space_expr(ctx, e):
    """canonical string of a space-valued expression (L.range, x.space, f.domain, local alias), or None"""
    if isinstance(e, ast.Name) and e.id in ctx.spaces:
        return ctx.spaces[e.id]
    if isinstance(e, ast.Attribute) and e.attr in ('domain', 'range'):
        b = op_symbol(ctx, e.value)
        if b is not None:
            return b + '.' + e.attr
    if isinstance(e, ast.Attribute) and e.attr == 'space' and isinstance(e.value, ast.Name) \
            and e.value.id in ctx.vectors:
        return e.value.id + '.space'
    return None


# ------------------------------------------------------------------ vectors
def vx(ctx, e, emit):
    """vector expression; `emit` receives statements that must run before (lincomb used as a value)"""
    if isinstance(e, ast.Name):
        if e.id in ctx.vectors:
            return '(VName %s)' % cstr(e.id)
        ctx.err(e, 'not a vector name')
    if isinstance(e, ast.BinOp):
        if isinstance(e.op, (ast.Add, ast.Sub)):
            c = 'VAdd' if isinstance(e.op, ast.Add) else 'VSub'
            a = vx(ctx, e.left, emit)
            b = vx(ctx, e.right, emit)
            return '(%s %s %s)' % (c, a, b)
        if isinstance(e.op, ast.Mult) and is_scalar(ctx, e.left):
            return '(VScal %s %s)' % (sx(ctx, e.left), vx(ctx, e.right, emit))
        ctx.err(e, 'unsupported vector arithmetic')
    if isinstance(e, ast.Call):
        f = e.func
        # x.lincomb(a, u, b, v) used as a value: mutate x first, the value is x
        if isinstance(f, ast.Attribute) and f.attr == 'lincomb' and isinstance(f.value, ast.Name) \
                and f.value.id in ctx.vectors:
            emit(write_lincomb(ctx, e, emit))
            return '(VName %s)' % cstr(f.value.id)
        if isinstance(f, ast.Attribute) and f.attr == 'copy' and not e.args and isinstance(f.value, ast.Name) \
                and f.value.id in ctx.vectors:
            return '(VName %s)' % cstr(f.value.id)       # the VALUE of x; Bind makes the new object
        if isinstance(f, ast.Attribute) and f.attr in ('zero', 'element') and not e.args and not e.keywords:
            sp = space_expr(ctx, f.value)
            if sp is None:
                ctx.err(e, 'unknown space')
            return '(VZero %s)' % cstr(sp) if f.attr == 'zero' else None   # element(): caller handles junk
        if e.keywords:
            ctx.err(e, 'keyword argument in a value position')
        # op.derivative(p).adjoint(a)
        if isinstance(f, ast.Attribute) and f.attr == 'adjoint' and isinstance(f.value, ast.Call) \
                and isinstance(f.value.func, ast.Attribute) and f.value.func.attr == 'derivative' \
                and len(f.value.args) == 1 and len(e.args) == 1:
            base = op_symbol(ctx, f.value.func.value)
            if base is None:
                ctx.err(e, 'unknown operator')
            sym = base + '.derivative.adjoint'
            ctx.symbols.add(sym + ' [2 args]')
            return '(VApp2 %s %s %s)' % (cstr(sym), vx(ctx, f.value.args[0], emit), vx(ctx, e.args[0], emit))
        sym = op_symbol(ctx, f)
        if sym is None or len(e.args) != 1:
            ctx.err(e, 'unknown callee')
        ctx.symbols.add(sym)
        return '(VApp %s %s)' % (cstr(sym), vx(ctx, e.args[0], emit))
    ctx.err(e, 'unsupported vector expression')


def write_lincomb(ctx, call, emit):
    tgt = call.func.value.id
    a = call.args
    if len(a) != 4 or call.keywords or not (is_scalar(ctx, a[0]) and is_scalar(ctx, a[2])):
        ctx.err(call, 'lincomb shape')
    return '(Write %s (VLin %s %s %s %s))' % (cstr(tgt), sx(ctx, a[0]), vx(ctx, a[1], emit), sx(ctx, a[2]),
                                                vx(ctx, a[3], emit))


# --------------------------------------------------------------- statements
def all_raise(body):
    return all(isinstance(s, ast.Raise) for s in body)


def is_validation_if(s):
    """if ...: raise ... [elif ...: raise ...]"""
    if not all_raise(s.body):
        return False
    if not s.orelse:
        return True
    if len(s.orelse) == 1 and isinstance(s.orelse[0], ast.If):
        return is_validation_if(s.orelse[0])
    return all_raise(s.orelse)


def scalar_rhs_ok(ctx, v):
    if isinstance(v, ast.Tuple):
        return all(scalar_rhs_ok(ctx, x) for x in v.elts)
    if isinstance(v, ast.Name):
        return v.id in ctx.scalars
    if isinstance(v, ast.Call) and isinstance(v.func, ast.Name) and v.func.id in ('float', 'int') \
            and len(v.args) == 1 and isinstance(v.args[0], ast.Name) and v.args[0].id in ctx.scalars:
        return True
    if isinstance(v, ast.Call) and isinstance(v.func, ast.Name) and v.func.id == 'pdhg_stepsize':
        return True
    if is_kwargs_pop(v):
        return True
    # lam = lam_in if callable(lam_in) else (lambda _: float(lam_in))
    if isinstance(v, ast.IfExp) and isinstance(v.body, ast.Name) and v.body.id in ctx.scalars \
            and isinstance(v.orelse, ast.Lambda):
        return True
    return False


def is_kwargs_pop(v):
    return (isinstance(v, ast.Call) and isinstance(v.func, ast.Attribute) and v.func.attr == 'pop'
            and isinstance(v.func.value, ast.Name) and v.func.value.id == 'kwargs'
            and len(v.args) == 2 and isinstance(v.args[0], ast.Constant) and isinstance(v.args[1], ast.Constant))


def stmts(ctx, body, out, in_loop):
    for s in body:
        stmt(ctx, s, out, in_loop)


def stmt(ctx, s, out, in_loop):
    emit = out.append
    if isinstance(s, ast.Expr) and isinstance(s.value, ast.Constant) and isinstance(s.value.value, str):
        return                                                   # docstring
    if isinstance(s, ast.If):
        test = ast.unparse(s.test)
        if test in ctx.flags:
            stmts(ctx, s.body if ctx.flags[test] else s.orelse, out, in_loop)
            return
        # if v is None: v = e  [elif ...: raise]   for an optional vector parameter
        if (isinstance(s.test, ast.Compare) and isinstance(s.test.left, ast.Name) and s.test.left.id in ctx.optional
                and len(s.test.ops) == 1 and isinstance(s.test.ops[0], ast.Is)
                and isinstance(s.test.comparators[0], ast.Constant) and s.test.comparators[0].value is None
                and len(s.body) == 1 and isinstance(s.body[0], ast.Assign)
                and (not s.orelse or (len(s.orelse) == 1 and isinstance(s.orelse[0], ast.If)
                                      and is_validation_if(s.orelse[0])) or all_raise(s.orelse))):
            inner = []
            stmt(ctx, s.body[0], inner, in_loop)
            if len(inner) != 1:
                ctx.err(s, 'default of an optional parameter must be one statement')
            emit('(Default %s %s)' % (cstr(s.test.left.id), inner[0]))
            return
        if is_validation_if(s):
            return
        ctx.err(s, 'if-test is neither input validation nor a configured flag')
    if isinstance(s, ast.For):
        if in_loop or ctx.body is not None or s.orelse:
            ctx.err(s, 'nested or second loop')
        it = s.iter
        if not (isinstance(s.target, ast.Name) and isinstance(it, ast.Call) and isinstance(it.func, ast.Name)
                and it.func.id == 'range' and len(it.args) == 1 and isinstance(it.args[0], ast.Name)
                and it.args[0].id in ('niter', 'maxiter')):
            ctx.err(s, 'loop header')
        ctx.loopvar = s.target.id
        ctx.body = []
        stmts(ctx, s.body, ctx.body, True)
        return
    if isinstance(s, ast.AugAssign):
        if isinstance(s.target, ast.Name) and s.target.id in ctx.vectors and isinstance(s.op, (ast.Add, ast.Sub)):
            c = 'VAdd' if isinstance(s.op, ast.Add) else 'VSub'
            rhs = vx(ctx, s.value, emit)
            emit('(Write %s (%s (VName %s) %s))' % (cstr(s.target.id), c, cstr(s.target.id), rhs))
            return
        ctx.err(s, 'augmented assignment')
    if isinstance(s, ast.Assign):
        if len(s.targets) != 1:
            ctx.err(s, 'multiple targets')
        t, v = s.targets[0], s.value
        # x[:] = e
        if isinstance(t, ast.Subscript) and isinstance(t.value, ast.Name) and t.value.id in ctx.vectors \
                and isinstance(t.slice, ast.Slice) and t.slice.lower is None and t.slice.upper is None \
                and t.slice.step is None:
            rhs = vx(ctx, v, emit)
            emit('(Write %s %s)' % (cstr(t.value.id), rhs))
            return
        names = [t] if isinstance(t, ast.Name) else (list(t.elts) if isinstance(t, ast.Tuple) else None)
        if names is None or not all(isinstance(n, ast.Name) for n in names):
            ctx.err(s, 'assignment target')
        ids = [n.id for n in names]
        # scalar preparation
        if all(i in ctx.scalars for i in ids):
            if in_loop:
                # only  lam_k = lam(k)
                if not (len(ids) == 1 and isinstance(v, ast.Call) and isinstance(v.func, ast.Name)
                        and v.func.id in ctx.scalars and len(v.args) == 1 and isinstance(v.args[0], ast.Name)
                        and v.args[0].id == ctx.loopvar):
                    ctx.err(s, 'scalar update inside the loop')
                return
            if not scalar_rhs_ok(ctx, v):
                ctx.err(s, 'scalar preparation of unknown shape')
            return
        if len(ids) != 1:
            ctx.err(s, 'tuple assignment of non-scalars')
        x = ids[0]
        # optional keyword parameters / callback
        if is_kwargs_pop(v):
            key = v.args[0].value
            if key == x and (x in ctx.optional or x == 'callback') and v.args[1].value is None:
                return
            ctx.err(s, 'kwargs.pop of an unknown option')
        # configured flag:  proximal_constant = ...
        if x in ctx.flags and not in_loop:
            return
        # space alias
        sp = space_expr(ctx, v)
        if sp is not None:
            ctx.spaces[x] = sp
            return
        # operator alias
        sym = op_symbol(ctx, v)
        if sym is not None:
            ctx.alias[x] = sym
            return
        # vector binding
        if isinstance(v, ast.Name) and v.id in ctx.vectors:
            ctx.vectors.add(x)
            emit('(Alias %s %s)' % (cstr(x), cstr(v.id)))
            return
        if isinstance(v, ast.Call) and isinstance(v.func, ast.Attribute) and v.func.attr == 'element' \
                and not v.args and not v.keywords and space_expr(ctx, v.func.value) is not None:
            ctx.vectors.add(x)
            emit('(Bind %s (VJunk %s))' % (cstr(x), cstr(x)))
            return
        rhs = vx(ctx, v, emit)
        if rhs is None:
            ctx.err(s, 'unsupported right-hand side')
        ctx.vectors.add(x)
        emit('(Bind %s %s)' % (cstr(x), rhs))
        return
    if isinstance(s, ast.Expr) and isinstance(s.value, ast.Call):
        c = s.value
        f = c.func
        if isinstance(f, ast.Name) and f.id == 'callback' and len(c.args) == 1 and isinstance(c.args[0], ast.Name) \
                and c.args[0].id in ctx.vectors and not c.keywords:
            emit('(Callback %s)' % cstr(c.args[0].id))
            return
        if isinstance(f, ast.Name) and f.id == 'projection' and len(c.args) == 1 and isinstance(c.args[0], ast.Name) \
                and c.args[0].id in ctx.vectors and not c.keywords:
            ctx.symbols.add('projection')
            emit('(Write %s (VApp "projection" (VName %s)))' % (cstr(c.args[0].id), cstr(c.args[0].id)))
            return
        if isinstance(f, ast.Attribute) and isinstance(f.value, ast.Name) and f.value.id in ctx.vectors:
            if f.attr == 'lincomb':
                emit(write_lincomb(ctx, c, emit))
                return
            if f.attr == 'assign' and len(c.args) == 1 and not c.keywords:
                rhs = vx(ctx, c.args[0], emit)
                emit('(Write %s %s)' % (cstr(f.value.id), rhs))
                return
        # op(arg, out=name)
        if len(c.keywords) == 1 and c.keywords[0].arg == 'out' and isinstance(c.keywords[0].value, ast.Name) \
                and c.keywords[0].value.id in ctx.vectors:
            plain = ast.Call(func=c.func, args=c.args, keywords=[])
            rhs = vx(ctx, plain, emit)
            emit('(Write %s %s)' % (cstr(c.keywords[0].value.id), rhs))
            return
        ctx.err(s, 'unsupported call statement')
    if isinstance(s, ast.Return) and s.value is None and not in_loop:
        return
    ctx.err(s, 'unsupported statement')


N = 'odl/solvers/nonsmooth/'
CONFIG = {
    'admm_linearized': dict(
        file=N + 'admm.py', scalars=['tau', 'sigma', 'niter', 'tau_in', 'sigma_in', 'niter_in'], vectors=['x'],
        operators=['f', 'g', 'L'], flags={'callback is not None': True}),
    'admm_linearized_simple': dict(
        file=N + 'admm.py', scalars=['tau', 'sigma', 'niter'], vectors=['x'], operators=['f', 'g', 'L'],
        flags={'callback is not None': True}),
    'doubleprox_dc': dict(
        file=N + 'difference_convex.py', scalars=['gamma', 'mu', 'niter'], vectors=['x', 'y'],
        operators=['f', 'phi', 'g', 'K'], flags={'callback is not None': True}),
    'doubleprox_dc_simple': dict(
        file=N + 'difference_convex.py', scalars=['gamma', 'mu', 'niter'], vectors=['x', 'y'],
        operators=['f', 'phi', 'g', 'K'], flags={}),
    'pdhg': dict(
        file=N + 'primal_dual_hybrid_gradient.py',
        scalars=['tau', 'sigma', 'niter', 'theta', 'theta_in', 'gamma_primal', 'gamma_dual'],
        vectors=['x'], optional=['x_relax', 'y'], operators=['f', 'g', 'L'],
        flags={'callback is not None': True, 'gamma_primal is not None': False, 'gamma_dual is not None': False,
               'gamma_primal is not None and gamma_dual is not None': False,
               'proximal_constant': True, 'not proximal_constant': False}),
    'landweber': dict(
        file='odl/solvers/iterative/iterative.py', scalars=['omega', 'niter'], vectors=['x', 'rhs'],
        operators=['op'], flags={'callback is not None': True, 'projection is not None': True,
                                 'omega is None': False}),
    'proximal_gradient': dict(
        file=N + 'proximal_gradient_solvers.py', scalars=['gamma', 'gamma_in', 'niter', 'lam', 'lam_in', 'lam_k'],
        vectors=['x'], operators=['f', 'g'], flags={'callback is not None': True}),
}


def translate_solver(name, cfg, repo):
    src = open(os.path.join(repo, cfg['file'])).read()
    tree = ast.parse(src)
    fn = [n for n in tree.body if isinstance(n, ast.FunctionDef) and n.name == name]
    if len(fn) != 1:
        raise C.TranslateError('%s: function not found' % name)
    ctx = Ctx(name, cfg)
    stmts(ctx, fn[0].body, ctx.pre, False)
    if ctx.body is None:
        raise C.TranslateError('%s: no loop found' % name)
    return ctx


def translate(repo=None):
    repo = repo or C.REPO
    out = ['(* GENERATED by translate/solvers.py from the solver sources -- do not edit. *)',
           'From Coq Require Import ZArith QArith String List.',
           'From Verif Require Import C11.Syntax.',
           'Import ListNotations.',
           'Local Open Scope string_scope.', '']
    for name, cfg in CONFIG.items():
        ctx = translate_solver(name, cfg, repo)
        out.append('(* %s  (%s)' % (name, cfg['file']))
        out.append('   operator symbols: %s' % ', '.join(sorted(ctx.symbols)))
        out.append('   assumed: %s *)' % ', '.join('%s=%s' % kv for kv in sorted(cfg.get('flags', {}).items())))
        out.append('Definition %s_pre : list stmt := [' % name)
        out.append(';\n'.join('  ' + s for s in ctx.pre))
        out.append('].')
        out.append('Definition %s_body : list stmt := [' % name)
        out.append(';\n'.join('  ' + s for s in ctx.body))
        out.append('].')
        out.append('')
    return '\n'.join(out) + '\n'


if __name__ == '__main__':
    print(translate())
