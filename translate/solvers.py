"""Translate the preamble and the loop body of the iterative solvers from
/repo's current source into the small imperative language of coq/C11/Syntax.v
(Python names bound to mutable vector objects) -> coq/Gen/Solvers.v.

Fail closed: every statement must match one of the patterns below, otherwise
TranslateError.  What is NOT translated but assumed, per solver (CONFIG):
  * which names are scalars (step sizes, counters) -- scalar preparation
    statements of a fixed shape (float(.), int(.), kwargs.pop, pdhg_stepsize)
    are skipped, scalars are parameters of the interpretation;
  * the value of configuration tests (`callback is not None` -> True,
    `gamma_primal is not None` -> False, `random` -> False, ...): the listed
    branch is taken;
  * input validation (`if ...: raise ...`) is skipped;
  * the solvers over LISTS of operators (adupdates, adupdates_simple,
    kaczmarz, osmlem) are emitted twice: (old) per-index programs of the inner
    `for` loops over indexed names such as "duals[j]" plus the skeleton of the
    outer loop body (Gen/Solvers.v), and (new, translate_l) preamble AND main
    loop in the list language of coq/C11/SyntaxL.v (Gen/SolversL.v): list /
    dict comprehensions that create objects, operator-list aliases (proxs),
    structured references RVar / RIdx / RKey.
"""
import ast
import hashlib
import os

from harness import common as C


class Ctx(object):
    def __init__(self, name, cfg):
        self.name = name
        self.scalars = set(cfg['scalars'])
        self.vectors = set(cfg['vectors'])          # vector-valued names (parameters first)
        self.optional = set(cfg.get('optional', ()))  # optional vector keyword parameters
        self.flags = dict(cfg.get('flags', {}))     # unparsed test -> bool
        self.ops = set(cfg['operators'])            # names of operator / functional parameters
        self.vlists = set(cfg.get('vlists', ()))    # lists of vectors:    duals[j]
        self.oplists = set(cfg.get('oplists', ()))  # lists of operators:  L[j], proxs[j]
        self.slists = set(cfg.get('slists', ()))    # lists of scalars:    omega[i]
        self.dicts = set(cfg.get('dicts', ()))      # dict range -> vector: tmp_rans[L[j].range]
        self.splists = set(cfg.get('splists', ()))  # lists of spaces:     ranges[j]
        self.alias = {}                             # local name -> canonical operator expression (string)
        self.spaces = {}                            # local name -> canonical space expression
        self.sdefs = {}                             # scalar local -> defining expression (inlined)
        self.loop_scalars = set(cfg.get('loop_scalars', ()))   # scalars recomputed in every iteration (parameters)
        self.perm = set()                           # range aliases that are random permutations
        self.oplist_alias = {}                      # proxs -> 'g[#].convex_conj.proximal(...)' (from the preamble)
        self.keysets = set()                        # unique_ranges
        self.options = set(cfg.get('options', ()))  # non-numeric option names (callback_loop)
        self.version = {}                           # loop scalar -> number of updates so far in the loop body
        self.normdefs = {}                          # scalar local d -> vector name v  for  d = -v.norm() ** 2
        self.ranges = {}                            # rng -> 'range(length)'
        self.pre, self.body = [], None
        self.inner = []                             # (index var, [stmts]) of nested for loops
        self.symbols = set()
        self.loopvar = None
        self.idx = None                             # index variable of the inner loop being translated

    def err(self, node, why):
        raise C.TranslateError('%s line %s: %s: %s' % (self.name, getattr(node, 'lineno', '?'), why,
                                                        ast.unparse(node)[:120]))


def cstr(s):
    return '"%s"' % s


def pick(ctx, e):
    """resolve  a if TEST else b  by the configured flags"""
    while isinstance(e, ast.IfExp):
        t = ast.unparse(e.test)
        if t not in ctx.flags:
            ctx.err(e, 'conditional expression on an unconfigured test')
        e = e.body if ctx.flags[t] else e.orelse
    return e


def vers(ctx, name):
    """a loop scalar updated k times so far in the loop body is the parameter name followed by k primes"""
    return name + "'" * ctx.version.get(name, 0)


def is_idx(ctx, n):
    return isinstance(n, ast.Name) and ctx.idx is not None and n.id == ctx.idx


# ------------------------------------------------------------------ scalars
def is_scalar(ctx, e):
    e = pick(ctx, e)
    if isinstance(e, ast.Constant) and isinstance(e.value, (int, float)) and not isinstance(e.value, bool):
        return True
    if isinstance(e, ast.Name):
        return e.id in ctx.scalars or e.id in ctx.sdefs
    if isinstance(e, ast.Subscript) and isinstance(e.value, ast.Name) and e.value.id in ctx.slists \
            and is_idx(ctx, e.slice):
        return True
    if isinstance(e, ast.UnaryOp) and isinstance(e.op, ast.USub):
        return is_scalar(ctx, e.operand)
    if isinstance(e, ast.BinOp) and isinstance(e.op, (ast.Add, ast.Sub, ast.Mult, ast.Div)):
        return is_scalar(ctx, e.left) and is_scalar(ctx, e.right)
    return False


def sx(ctx, e):
    e = pick(ctx, e)
    if isinstance(e, ast.Constant):
        v = e.value
        if isinstance(v, int) or float(v).is_integer():
            return '(SInt %s)' % C.z(int(v))
        return '(SNum %s)' % C.q(v)
    if isinstance(e, ast.Name):
        if e.id in ctx.sdefs:
            return sx(ctx, ctx.sdefs[e.id])
        return '(SPar %s)' % cstr(vers(ctx, e.id))
    if isinstance(e, ast.Subscript):
        return '(SPar %s)' % cstr(ast.unparse(e))
    if isinstance(e, ast.UnaryOp):
        return '(SNeg %s)' % sx(ctx, e.operand)
    op = {ast.Add: 'SAdd', ast.Sub: 'SSub', ast.Mult: 'SMul', ast.Div: 'SDiv'}[type(e.op)]
    return '(%s %s %s)' % (op, sx(ctx, e.left), sx(ctx, e.right))


# ---------------------------------------------------------------- operators
def op_symbol(ctx, f):
    """canonical string of an operator-valued expression, or None"""
    if isinstance(f, ast.Name):
        if f.id in ctx.alias:
            return ctx.alias[f.id]
        if f.id in ctx.ops:
            return f.id
        return None
    if isinstance(f, ast.Subscript) and isinstance(f.value, ast.Name) and f.value.id in ctx.oplist_alias \
            and is_idx(ctx, f.slice):
        return ctx.oplist_alias[f.value.id].replace('[#]', '[%s]' % ctx.idx)
    if isinstance(f, ast.Subscript) and isinstance(f.value, ast.Name) and f.value.id in ctx.oplists \
            and is_idx(ctx, f.slice):
        return '%s[%s]' % (f.value.id, ctx.idx)
    if isinstance(f, ast.Subscript) and isinstance(f.value, ast.Name) and f.value.id in ctx.oplists \
            and isinstance(f.slice, ast.Constant) and isinstance(f.slice.value, int) and f.slice.value >= 0:
        return '%s[%d]' % (f.value.id, f.slice.value)
    if isinstance(f, ast.Attribute):
        base = op_symbol(ctx, f.value)
        if base is None:
            return None
        return base + '.' + f.attr
    if isinstance(f, ast.Call) and not f.keywords and len(f.args) == 1 and is_scalar(ctx, f.args[0]):
        # f.proximal(tau)  or  proximal_dual(sigma) with proximal_dual = g.convex_conj.proximal
        base = op_symbol(ctx, f.func)
        if base is None or not base.endswith('.proximal'):
            return None
        a = pick(ctx, f.args[0])
        return '%s(%s)' % (base, vers(ctx, a.id) if isinstance(a, ast.Name) else ast.unparse(a))
    return None


def space_expr(ctx, e):
    """canonical string of a space-valued expression, or None"""
    if isinstance(e, ast.Name) and e.id in ctx.spaces:
        return ctx.spaces[e.id]
    if isinstance(e, ast.Subscript) and isinstance(e.value, ast.Name) and e.value.id in ctx.splists \
            and is_idx(ctx, e.slice):
        return '%s[%s]' % (e.value.id, ctx.idx)
    if isinstance(e, ast.Attribute) and e.attr == 'domain' and isinstance(e.value, ast.Subscript) \
            and isinstance(e.value.value, ast.Name) and e.value.value.id in ctx.oplists \
            and isinstance(e.value.slice, ast.Constant) and e.value.slice.value == 0:
        return '%s[0].domain' % e.value.value.id
    if isinstance(e, ast.Attribute) and e.attr in ('domain', 'range'):
        b = op_symbol(ctx, e.value)
        if b is not None:
            return b + '.' + e.attr
    if isinstance(e, ast.Attribute) and e.attr == 'space' and vname(ctx, e.value) is not None:
        return vname(ctx, e.value) + '.space'
    return None


# ------------------------------------------------------------------ vectors
def vname(ctx, e):
    """the name (string) of a vector-valued variable: x, duals[j], tmp_rans[L[j].range]; or None"""
    if isinstance(e, ast.Name) and e.id in ctx.vectors:
        return e.id
    if isinstance(e, ast.Subscript) and isinstance(e.value, ast.Name):
        if e.value.id in ctx.vlists and is_idx(ctx, e.slice):
            return '%s[%s]' % (e.value.id, ctx.idx)
        if e.value.id in ctx.vlists and isinstance(e.slice, ast.Constant) and isinstance(e.slice.value, int) \
                and e.slice.value >= 0:
            return '%s[%d]' % (e.value.id, e.slice.value)
        if e.value.id in ctx.dicts:
            sp = space_expr(ctx, e.slice)
            if sp is not None:
                return '%s[%s]' % (e.value.id, sp)
    return None


def vx(ctx, e, emit):
    """vector expression; `emit` receives statements that must run before (lincomb used as a value)"""
    e = pick(ctx, e)
    n = vname(ctx, e)
    if n is not None:
        return '(VName %s)' % cstr(n)
    if isinstance(e, (ast.Name, ast.Subscript)):
        ctx.err(e, 'not a vector name')
    if isinstance(e, ast.BinOp):
        if isinstance(e.op, (ast.Add, ast.Sub)):
            c = 'VAdd' if isinstance(e.op, ast.Add) else 'VSub'
            a = vx(ctx, e.left, emit)
            b = vx(ctx, e.right, emit)
            return '(%s %s %s)' % (c, a, b)
        if isinstance(e.op, ast.Mult) and is_scalar(ctx, e.left):
            return '(VScal %s %s)' % (sx(ctx, e.left), vx(ctx, e.right, emit))
        ctx.err(e, 'unsupported vector arithmetic')
    if isinstance(e, ast.Call):
        f = e.func
        # x.lincomb(a, u, b, v) used as a value: mutate x first, the value is x
        if isinstance(f, ast.Attribute) and f.attr == 'lincomb' and vname(ctx, f.value) is not None:
            emit(write_lincomb(ctx, e, emit))
            return '(VName %s)' % cstr(vname(ctx, f.value))
        if isinstance(f, ast.Attribute) and f.attr == 'copy' and not e.args and vname(ctx, f.value) is not None:
            return '(VName %s)' % cstr(vname(ctx, f.value))       # the VALUE of x; Bind makes the new object
        if isinstance(f, ast.Attribute) and f.attr in ('zero', 'one') and not e.args and not e.keywords:
            sp = space_expr(ctx, f.value)
            if sp is None:
                ctx.err(e, 'unknown space')
            if f.attr == 'one':
                return '(VApp "ones_like" (VZero %s))' % cstr(sp)
            return '(VZero %s)' % cstr(sp)
        if ast.unparse(f) == 'np.maximum' and len(e.args) == 2 and not e.keywords and is_scalar(ctx, e.args[1]):
            return '(VMaxc %s %s)' % (sx(ctx, e.args[1]), vx(ctx, e.args[0], emit))
        # space.element(v): a new element with the value of v
        if isinstance(f, ast.Attribute) and f.attr == 'element' and len(e.args) == 1 and not e.keywords \
                and space_expr(ctx, f.value) is not None:
            return vx(ctx, e.args[0], emit)
        if e.keywords:
            ctx.err(e, 'keyword argument in a value position')
        # op.derivative(p).adjoint(a)
        if isinstance(f, ast.Attribute) and f.attr == 'adjoint' and isinstance(f.value, ast.Call) \
                and isinstance(f.value.func, ast.Attribute) and f.value.func.attr == 'derivative' \
                and len(f.value.args) == 1 and len(e.args) == 1:
            base = op_symbol(ctx, f.value.func.value)
            if base is None:
                ctx.err(e, 'unknown operator')
            sym = base + '.derivative.adjoint'
            ctx.symbols.add(sym + ' [2 args]')
            return '(VApp2 %s %s %s)' % (cstr(sym), vx(ctx, f.value.args[0], emit), vx(ctx, e.args[0], emit))
        sym = op_symbol(ctx, f)
        if sym is None or len(e.args) != 1:
            ctx.err(e, 'unknown callee')
        ctx.symbols.add(sym)
        return '(VApp %s %s)' % (cstr(sym), vx(ctx, e.args[0], emit))
    ctx.err(e, 'unsupported vector expression')


def write_lincomb(ctx, call, emit):
    tgt = vname(ctx, call.func.value)
    a = call.args
    if len(a) != 4 or call.keywords or not (is_scalar(ctx, a[0]) and is_scalar(ctx, a[2])):
        ctx.err(call, 'lincomb shape')
    return '(Write %s (VLin %s %s %s %s))' % (cstr(tgt), sx(ctx, a[0]), vx(ctx, a[1], emit), sx(ctx, a[2]),
                                                vx(ctx, a[3], emit))


# --------------------------------------------------------------- statements
def all_raise(body):
    return all(isinstance(s, ast.Raise) for s in body)


def is_validation_if(s):
    """if ...: raise ... [elif ...: raise ...]"""
    if not all_raise(s.body):
        return False
    if not s.orelse:
        return True
    if len(s.orelse) == 1 and isinstance(s.orelse[0], ast.If):
        return is_validation_if(s.orelse[0])
    return all_raise(s.orelse)


def scalar_rhs_ok(ctx, v):
    if isinstance(v, ast.Tuple):
        return all(scalar_rhs_ok(ctx, x) for x in v.elts)
    if isinstance(v, ast.Name):
        return v.id in ctx.scalars
    if isinstance(v, ast.Constant) and isinstance(v.value, (int, float)) and not isinstance(v.value, bool):
        return True
    if isinstance(v, ast.Call) and isinstance(v.func, ast.Name) and v.func.id in ('float', 'int') \
            and len(v.args) == 1 and isinstance(v.args[0], ast.Name) and v.args[0].id in ctx.scalars:
        return True
    if isinstance(v, ast.Call) and isinstance(v.func, ast.Name) and v.func.id == 'pdhg_stepsize':
        return True
    if is_kwargs_pop(v):
        return True
    if isinstance(v, ast.Call) and isinstance(v.func, ast.Name) and v.func.id == 'ConstantLineSearch' \
            and len(v.args) == 1 and isinstance(v.args[0], ast.Name) and v.args[0].id == 'line_search':
        return True
    # lam = lam_in if callable(lam_in) else (lambda _: float(lam_in))
    if isinstance(v, ast.IfExp) and isinstance(v.body, ast.Name) and v.body.id in ctx.scalars \
            and isinstance(v.orelse, ast.Lambda):
        return True
    return False


def scalar_only(ctx, v):
    """expression built from loop scalars, numbers, + - * / ** and np.sqrt only"""
    if isinstance(v, ast.Tuple):
        return all(scalar_only(ctx, e) for e in v.elts)
    if isinstance(v, ast.Constant):
        return isinstance(v.value, (int, float)) and not isinstance(v.value, bool)
    if isinstance(v, ast.Name):
        return v.id in ctx.loop_scalars or v.id in ctx.scalars
    if isinstance(v, ast.BinOp) and isinstance(v.op, (ast.Add, ast.Sub, ast.Mult, ast.Div, ast.Pow)):
        return scalar_only(ctx, v.left) and scalar_only(ctx, v.right)
    if isinstance(v, ast.Call) and ast.unparse(v.func) in ('np.sqrt', 'float') and len(v.args) == 1 \
            and not v.keywords:
        return scalar_only(ctx, v.args[0])
    return False


def is_kwargs_pop(v):
    return (isinstance(v, ast.Call) and isinstance(v.func, ast.Attribute) and v.func.attr == 'pop'
            and isinstance(v.func.value, ast.Name) and v.func.value.id == 'kwargs'
            and len(v.args) == 2 and isinstance(v.args[0], ast.Constant) and isinstance(v.args[1], ast.Constant))


def is_perm_range(ctx, it):
    """np.random.permutation(range(...))"""
    return (isinstance(it, ast.Call) and ast.unparse(it.func) == 'np.random.permutation' and len(it.args) == 1
            and not it.keywords and is_index_range(ctx, it.args[0]) and not isinstance(it.args[0], ast.Name))


def is_index_range(ctx, it):
    """range(length) | range(len(ops)) | range(n_ops) | rng (recorded alias)"""
    if isinstance(it, ast.Name):
        return it.id in ctx.ranges
    if isinstance(it, ast.Call) and isinstance(it.func, ast.Name) and it.func.id == 'range' and len(it.args) == 1:
        a = it.args[0]
        if isinstance(a, ast.Name) and a.id in ('length', 'n_ops', 'm'):
            return True
        if isinstance(a, ast.Call) and isinstance(a.func, ast.Name) and a.func.id == 'len' and len(a.args) == 1 \
                and isinstance(a.args[0], ast.Name) and a.args[0].id in ctx.oplists:
            return True
    return False


def stmts(ctx, body, out, depth):
    for s in body:
        stmt(ctx, s, out, depth)


def stmt(ctx, s, out, depth):
    """depth 0: preamble, 1: main loop body, 2: inner loop over the operators"""
    emit = out.append
    in_loop = depth > 0
    if isinstance(s, ast.Expr) and isinstance(s.value, ast.Constant) and isinstance(s.value.value, str):
        return                                                   # docstring
    if isinstance(s, ast.If):
        test = ast.unparse(s.test)
        # if np.abs(d) < tol: return      with  d = -v.norm() ** 2
        t = s.test
        if (depth == 1 and not s.orelse and len(s.body) == 1 and isinstance(s.body[0], ast.Return)
                and s.body[0].value is None and isinstance(t, ast.Compare) and len(t.ops) == 1
                and isinstance(t.ops[0], ast.Lt) and isinstance(t.left, ast.Call)
                and ast.unparse(t.left.func) == 'np.abs' and len(t.left.args) == 1
                and isinstance(t.left.args[0], ast.Name) and t.left.args[0].id in ctx.normdefs
                and is_scalar(ctx, t.comparators[0])):
            emit('(ReturnIfNormSqLt %s %s)' % (cstr(ctx.normdefs[t.left.args[0].id]), sx(ctx, t.comparators[0])))
            return
        if test in ctx.flags:
            stmts(ctx, s.body if ctx.flags[test] else s.orelse, out, depth)
            return
        # if k == niter - 1: ...; return      (last iteration of the main loop)
        if depth == 1 and not s.orelse and ctx.loopvar is not None and test == '%s == niter - 1' % ctx.loopvar \
                and s.body and isinstance(s.body[-1], ast.Return) and s.body[-1].value is None:
            prog = []
            stmts(ctx, s.body[:-1], prog, 1)
            emit('(OIfLast ' + ' ;; '.join(prog) + ')')
            return
        # if v is None: v = e  [elif ...: raise]   for an optional vector parameter
        if (isinstance(s.test, ast.Compare) and isinstance(s.test.left, ast.Name) and s.test.left.id in ctx.optional
                and len(s.test.ops) == 1 and isinstance(s.test.ops[0], ast.Is)
                and isinstance(s.test.comparators[0], ast.Constant) and s.test.comparators[0].value is None
                and len(s.body) == 1 and isinstance(s.body[0], ast.Assign)
                and (not s.orelse or (len(s.orelse) == 1 and isinstance(s.orelse[0], ast.If)
                                      and is_validation_if(s.orelse[0])) or all_raise(s.orelse))):
            inner = []
            stmt(ctx, s.body[0], inner, depth)
            if len(inner) != 1:
                ctx.err(s, 'default of an optional parameter must be one statement')
            emit('(Default %s %s)' % (cstr(s.test.left.id), inner[0]))
            return
        if is_validation_if(s):
            return
        ctx.err(s, 'if-test is neither input validation nor a configured flag')
    if isinstance(s, ast.For):
        if s.orelse:
            ctx.err(s, 'loop header')
        it = s.iter
        if depth == 0:
            if ctx.body is not None or not isinstance(s.target, ast.Name):
                ctx.err(s, 'second main loop')
            if not (isinstance(it, ast.Call) and isinstance(it.func, ast.Name) and it.func.id == 'range'
                    and len(it.args) == 1 and isinstance(it.args[0], ast.Name)
                    and it.args[0].id in ('niter', 'maxiter')):
                ctx.err(s, 'main loop header')
            ctx.loopvar = s.target.id
            ctx.body = []
            stmts(ctx, s.body, ctx.body, 1)
            return
        # for Li, vi in zip(L[1:], v[1:]): body   ->  loop over idx from 1 with Li = L[idx], vi = v[idx]
        if depth == 1 and isinstance(it, ast.Call) and isinstance(it.func, ast.Name) and it.func.id == 'zip' \
                and isinstance(s.target, ast.Tuple) and len(s.target.elts) == len(it.args) \
                and all(isinstance(t, ast.Name) for t in s.target.elts) \
                and all(isinstance(a, ast.Subscript) and isinstance(a.value, ast.Name)
                        and a.value.id in (ctx.oplists | ctx.vlists) and isinstance(a.slice, ast.Slice)
                        and isinstance(a.slice.lower, ast.Constant) and a.slice.upper is None and a.slice.step is None
                        for a in it.args) and len({a.slice.lower.value for a in it.args}) == 1:
            start = it.args[0].slice.lower.value
            idx = 'i%d' % (len(ctx.inner) + 1)
            mp = {t.id: '%s[%s]' % (a.value.id, idx) for t, a in zip(s.target.elts, it.args)}
            body = [_Subst(mp).visit(ast.parse(ast.unparse(b)).body[0]) for b in s.body]
            ctx.idx = idx
            prog = []
            stmts(ctx, body, prog, 2)
            ctx.inner.append((idx, prog))
            ctx.idx = None
            emit('(OForFrom%d %s %s_inner%d)' % (start, cstr(idx), ctx.name, len(ctx.inner)))
            return
        if depth == 1 and isinstance(s.target, ast.Name) and is_index_range(ctx, it):
            ctx.idx = s.target.id
            prog = []
            stmts(ctx, s.body, prog, 2)
            ctx.inner.append((ctx.idx, prog))
            ctx.idx = None
            kind = 'OForOrd' if isinstance(it, ast.Name) and it.id in ctx.perm else 'OFor'
            emit('(%s %s %s_inner%d)' % (kind, cstr(s.target.id), ctx.name, len(ctx.inner)))
            return
        ctx.err(s, 'nested loop')
    if isinstance(s, ast.AugAssign) and in_loop and isinstance(s.target, ast.Name) \
            and s.target.id in ctx.loop_scalars and scalar_only(ctx, s.value):
        ctx.version[s.target.id] = ctx.version.get(s.target.id, 0) + 1
        return                                   # tau *= theta: scalar recursion, values are parameters
    if isinstance(s, ast.AugAssign):
        t = vname(ctx, s.target)
        if t is not None and isinstance(s.op, (ast.Add, ast.Sub, ast.Mult, ast.Div)):
            c = {ast.Add: 'VAdd', ast.Sub: 'VSub', ast.Mult: 'VMul', ast.Div: 'VDiv'}[type(s.op)]
            rhs = vx(ctx, s.value, emit)
            emit('(Write %s (%s (VName %s) %s))' % (cstr(t), c, cstr(t), rhs))
            return
        ctx.err(s, 'augmented assignment')
    if isinstance(s, ast.Assign):
        if len(s.targets) != 1:
            ctx.err(s, 'multiple targets')
        t, v = s.targets[0], s.value
        # x[:] = e
        if isinstance(t, ast.Subscript) and vname(ctx, t.value) is not None \
                and isinstance(t.slice, ast.Slice) and t.slice.lower is None and t.slice.upper is None \
                and t.slice.step is None:
            rhs = vx(ctx, v, emit)
            emit('(Write %s %s)' % (cstr(vname(ctx, t.value)), rhs))
            return
        # duals[j] = e : rebinding a list slot
        if isinstance(t, ast.Subscript) and vname(ctx, t) is not None:
            x = vname(ctx, t)
            src = vname(ctx, pick(ctx, v))
            if src is not None:
                emit('(Alias %s %s)' % (cstr(x), cstr(src)))
            else:
                emit('(Bind %s %s)' % (cstr(x), vx(ctx, v, emit)))
            return
        names = [t] if isinstance(t, ast.Name) else (list(t.elts) if isinstance(t, ast.Tuple) else None)
        if names is None or not all(isinstance(n, ast.Name) for n in names):
            ctx.err(s, 'assignment target')
        ids = [n.id for n in names]
        # index range alias:  rng = range(length)   |   rng = np.random.permutation(range(length))
        if len(ids) == 1 and in_loop and is_index_range(ctx, pick(ctx, v)) and not isinstance(pick(ctx, v), ast.Name):
            ctx.ranges[ids[0]] = ast.unparse(pick(ctx, v))
            ctx.perm.discard(ids[0])
            return
        if len(ids) == 1 and in_loop and is_perm_range(ctx, pick(ctx, v)):
            ctx.ranges[ids[0]] = ast.unparse(pick(ctx, v))
            ctx.perm.add(ids[0])
            return
        # scalar preparation
        if all(i in ctx.scalars for i in ids):
            if in_loop:
                # lam_k = lam(k)   |   step = <scalar expression> (inlined)
                if len(ids) == 1 and isinstance(v, ast.Call) and isinstance(v.func, ast.Name) \
                        and v.func.id in ctx.scalars and len(v.args) == 1 and isinstance(v.args[0], ast.Name) \
                        and v.args[0].id == ctx.loopvar:
                    return
                # t, t_old = (1 + np.sqrt(1 + 4 * t ** 2)) / 2, t   |   alpha = (t_old - 1) / t :
                # a purely scalar recursion over configured loop scalars; its values are parameters
                if all(i in ctx.loop_scalars for i in ids) and scalar_only(ctx, v):
                    for i in ids:
                        ctx.version[i] = ctx.version.get(i, 0) + 1
                    return
                if len(ids) == 1 and is_scalar(ctx, v):
                    ctx.sdefs[ids[0]] = pick(ctx, v)
                    return
                # d = -v.norm() ** 2
                if (len(ids) == 1 and isinstance(v, ast.UnaryOp) and isinstance(v.op, ast.USub)
                        and isinstance(v.operand, ast.BinOp) and isinstance(v.operand.op, ast.Pow)
                        and isinstance(v.operand.right, ast.Constant) and v.operand.right.value == 2
                        and isinstance(v.operand.left, ast.Call) and not v.operand.left.args
                        and isinstance(v.operand.left.func, ast.Attribute) and v.operand.left.func.attr == 'norm'
                        and vname(ctx, v.operand.left.func.value) is not None):
                    ctx.normdefs[ids[0]] = vname(ctx, v.operand.left.func.value)
                    return
                # step = line_search(x, -grad_x, dir_derivative): a ConstantLineSearch returns its constant
                if (len(ids) == 1 and ctx.flags.get('line_search is a ConstantLineSearch') and isinstance(v, ast.Call)
                        and isinstance(v.func, ast.Name) and v.func.id == 'line_search' and len(v.args) == 3
                        and not v.keywords):
                    return
                ctx.err(s, 'scalar update inside the loop')
            if not scalar_rhs_ok(ctx, v):
                ctx.err(s, 'scalar preparation of unknown shape')
            return
        if len(ids) != 1:
            ctx.err(s, 'tuple assignment of non-scalars')
        x = ids[0]
        # optional keyword parameters / callback
        if is_kwargs_pop(v):
            key = v.args[0].value
            if key == x and (x in ctx.optional or x == 'callback') and v.args[1].value is None:
                return
            ctx.err(s, 'kwargs.pop of an unknown option')
        # configured flag:  proximal_constant = ...
        if x in ctx.flags and not in_loop:
            return
        v = pick(ctx, v)
        # space alias
        sp = space_expr(ctx, v)
        if sp is not None:
            ctx.spaces[x] = sp
            return
        # operator alias
        sym = op_symbol(ctx, v)
        if sym is not None:
            ctx.alias[x] = sym
            return
        # vector binding
        src = vname(ctx, v)
        if src is not None:
            ctx.vectors.add(x)
            emit('(Alias %s %s)' % (cstr(x), cstr(src)))
            return
        if isinstance(v, ast.Call) and isinstance(v.func, ast.Attribute) and v.func.attr == 'element' \
                and not v.args and not v.keywords and space_expr(ctx, v.func.value) is not None:
            ctx.vectors.add(x)
            emit('(Bind %s (VJunk %s))' % (cstr(x), cstr(x)))
            return
        rhs = vx(ctx, v, emit)
        ctx.vectors.add(x)
        emit('(Bind %s %s)' % (cstr(x), rhs))
        return
    if isinstance(s, ast.Expr) and isinstance(s.value, ast.Call):
        c = s.value
        f = c.func
        if isinstance(f, ast.Name) and f.id == 'callback' and len(c.args) == 1 and vname(ctx, c.args[0]) is not None \
                and not c.keywords:
            emit('(Callback %s)' % cstr(vname(ctx, c.args[0])))
            return
        if isinstance(f, ast.Name) and f.id == 'projection' and len(c.args) == 1 \
                and vname(ctx, c.args[0]) is not None and not c.keywords:
            ctx.symbols.add('projection')
            n = vname(ctx, c.args[0])
            emit('(Write %s (VApp "projection" (VName %s)))' % (cstr(n), cstr(n)))
            return
        out_kw = None
        if len(c.keywords) == 1 and c.keywords[0].arg == 'out':
            out_kw = vname(ctx, c.keywords[0].value)
            if out_kw is None:
                ctx.err(s, 'out= is not a vector name')
        if isinstance(f, ast.Attribute) and vname(ctx, f.value) is not None:
            tgt = vname(ctx, f.value)
            if f.attr == 'lincomb':
                emit(write_lincomb(ctx, c, emit))
                return
            if f.attr == 'set_zero' and not c.args and not c.keywords:
                emit('(Write %s (VZero %s))' % (cstr(tgt), cstr(tgt + '.space')))
                return
            if f.attr == 'assign' and len(c.args) == 1 and not c.keywords:
                rhs = vx(ctx, c.args[0], emit)
                emit('(Write %s %s)' % (cstr(tgt), rhs))
                return
            # a.divide(b, out=c)  |  a.multiply(b, out=c)
            if f.attr in ('divide', 'multiply') and len(c.args) == 1 and out_kw is not None:
                k = 'VDiv' if f.attr == 'divide' else 'VMul'
                emit('(Write %s (%s (VName %s) %s))' % (cstr(out_kw), k, cstr(tgt), vx(ctx, c.args[0], emit)))
                return
        # a.ufuncs.maximum(c, out=b)
        if isinstance(f, ast.Attribute) and f.attr == 'maximum' and isinstance(f.value, ast.Attribute) \
                and f.value.attr == 'ufuncs' and vname(ctx, f.value.value) is not None and len(c.args) == 1 \
                and is_scalar(ctx, c.args[0]) and out_kw is not None:
            emit('(Write %s (VMaxc %s (VName %s)))' % (cstr(out_kw), sx(ctx, c.args[0]),
                                                        cstr(vname(ctx, f.value.value))))
            return
        # op(arg, out=name)
        if out_kw is not None:
            plain = ast.Call(func=c.func, args=c.args, keywords=[])
            rhs = vx(ctx, plain, emit)
            emit('(Write %s %s)' % (cstr(out_kw), rhs))
            return
        ctx.err(s, 'unsupported call statement')
    if isinstance(s, ast.Return) and s.value is None and not in_loop:
        return
    ctx.err(s, 'unsupported statement')


N = 'odl/solvers/nonsmooth/'
IT = 'odl/solvers/iterative/'
CB_IN = "callback is not None and callback_loop == 'inner'"
CB_OUT = "callback is not None and callback_loop == 'outer'"
CONFIG = {
    'admm_linearized': dict(
        file=N + 'admm.py', scalars=['tau', 'sigma', 'niter', 'tau_in', 'sigma_in', 'niter_in'], vectors=['x'],
        operators=['f', 'g', 'L'], flags={'callback is not None': True}),
    'admm_linearized_simple': dict(
        file=N + 'admm.py', scalars=['tau', 'sigma', 'niter'], vectors=['x'], operators=['f', 'g', 'L'],
        flags={'callback is not None': True}),
    'doubleprox_dc': dict(
        file=N + 'difference_convex.py', scalars=['gamma', 'mu', 'niter'], vectors=['x', 'y'],
        operators=['f', 'phi', 'g', 'K'], flags={'callback is not None': True}),
    'doubleprox_dc_simple': dict(
        file=N + 'difference_convex.py', scalars=['gamma', 'mu', 'niter'], vectors=['x', 'y'],
        operators=['f', 'phi', 'g', 'K'], flags={}),
    'pdhg': dict(
        file=N + 'primal_dual_hybrid_gradient.py',
        scalars=['tau', 'sigma', 'niter', 'theta', 'theta_in', 'gamma_primal', 'gamma_dual', 'gamma_primal_in',
                 'gamma_dual_in'],
        vectors=['x'], optional=['x_relax', 'y'], operators=['f', 'g', 'L'],
        flags={'callback is not None': True, 'gamma_primal is not None': False, 'gamma_dual is not None': False,
               'gamma_primal is not None and gamma_dual is not None': False,
               'proximal_constant': True, 'not proximal_constant': False}),
    'landweber': dict(
        file=IT + 'iterative.py', scalars=['omega', 'niter'], vectors=['x', 'rhs'],
        operators=['op'], flags={'callback is not None': True, 'projection is not None': True,
                                 'omega is None': False}),
    'proximal_gradient': dict(
        file=N + 'proximal_gradient_solvers.py', scalars=['gamma', 'gamma_in', 'niter', 'lam', 'lam_in', 'lam_k'],
        vectors=['x'], operators=['f', 'g'], flags={'callback is not None': True}),
    'accelerated_proximal_gradient': dict(
        file=N + 'proximal_gradient_solvers.py', scalars=['gamma', 'gamma_in', 'niter', 't', 't_old', 'alpha'],
        vectors=['x'], operators=['f', 'g'], flags={'callback is not None': True},
        loop_scalars=['t', 't_old', 'alpha']),
    'dca': dict(
        file=N + 'difference_convex.py', scalars=['niter'], vectors=['x'], operators=['f', 'g'],
        flags={'callback is not None': True}),
    'prox_dca': dict(
        file=N + 'difference_convex.py', scalars=['niter', 'gamma'], vectors=['x'], operators=['f', 'g'],
        flags={'callback is not None': True}),
    'steepest_descent': dict(
        file='odl/solvers/smooth/gradient.py', scalars=['maxiter', 'tol', 'step', 'dir_derivative', 'line_search'],
        vectors=['x'], operators=['f'],
        flags={'callback is not None': True, 'projection is not None': True, 'not callable(line_search)': True,
               'line_search is a ConstantLineSearch': True}),
    # ---- solvers over lists of operators: preamble pinned by hash, inner loops per index
    'adupdates': dict(
        file=N + 'alternating_dual_updates.py', scalars=['stepsize', 'niter', 'step'], vectors=['x'], operators=[],
        vlists=['duals'], oplists=['L', 'proxs', 'g'], slists=['inner_stepsizes'], dicts=['tmp_rans'],
        flags={'random': False, CB_IN: False, CB_OUT: True, 'np.isscalar(inner_stepsizes[j])': True},
        pre_hash='c7d09dc517a8'),
    'adupdates_simple': dict(
        file=N + 'alternating_dual_updates.py', scalars=['stepsize', 'niter'], vectors=['x'], operators=[],
        vlists=['duals'], oplists=['L', 'g'], slists=['inner_stepsizes'], splists=['ranges'],
        flags={'random': False, 'np.isscalar(inner_stepsizes[j])': True},
        pre_hash='4910bf6df814'),
    'kaczmarz': dict(
        file=IT + 'iterative.py', scalars=['niter'], vectors=['x', 'tmp_dom'], operators=[],
        vlists=['rhs'], oplists=['ops'], slists=['omega'], dicts=['tmp_rans'],
        flags={'random': False, CB_IN: False, CB_OUT: True, 'projection is not None': True},
        pre_hash='88e1c3caf5ae'),
    'osmlem': dict(
        file=IT + 'statistical.py', scalars=['niter', 'eps'], vectors=['x', 'tmp_dom'], operators=[],
        vlists=['tmp_ran', 'data', 'sensitivities'], oplists=['op'],
        flags={'callback is not None': True},
        pre_hash='c3b10c8a6ca2'),
}
# ---- other valuations of the configuration tests (same source functions)
def _variant(base, fn=None, **flags):
    cfg = dict(CONFIG[base])
    cfg['fn'] = base
    cfg['flags'] = dict(cfg['flags'], **flags)
    return cfg


CONFIG['pdhg_accel_primal'] = dict(_variant('pdhg', **{'gamma_primal is not None': True, 'proximal_constant': False,
                                                        'not proximal_constant': True}),
                                   loop_scalars=['tau', 'sigma', 'theta'])
CONFIG['pdhg_accel_dual'] = dict(_variant('pdhg', **{'gamma_dual is not None': True, 'proximal_constant': False,
                                                      'not proximal_constant': True}),
                                 loop_scalars=['tau', 'sigma', 'theta'])
CONFIG['landweber_noproj'] = _variant('landweber', **{'projection is not None': False})
CONFIG['kaczmarz_noproj'] = _variant('kaczmarz', **{'projection is not None': False})
CONFIG['kaczmarz_cbinner'] = _variant('kaczmarz', **{CB_IN: True, CB_OUT: False})
CONFIG['adupdates_cbinner'] = _variant('adupdates', **{CB_IN: True, CB_OUT: False})
# mlem must stay the one-line wrapper around osmlem
MLEM_BODY = 'osmlem([op], x, [data], niter=niter, callback=callback, **kwargs)'
# mlem: a single sensitivities object (a domain element or a NumPy array) is wrapped into the one-entry list
# osmlem expects; None, a float and a list are passed through
MLEM_PRE = ["sensitivities = kwargs.pop('sensitivities', None)",
            "if sensitivities is not None:\n    if sensitivities in op.domain or isinstance(sensitivities, np.ndarray):\n"
            "        sensitivities = [sensitivities]\n    kwargs['sensitivities'] = sensitivities"]


def pre_digest(fn):
    """hash of the statements before the main loop (docstring excluded)"""
    parts = []
    for s in fn.body:
        if isinstance(s, ast.For):
            break
        if isinstance(s, ast.Expr) and isinstance(s.value, ast.Constant) and isinstance(s.value.value, str):
            continue
        parts.append(ast.dump(s))
    return hashlib.sha1('\n'.join(parts).encode()).hexdigest()[:12]


def find_fn(repo, cfg, name):
    src = open(os.path.join(repo, cfg['file'])).read()
    tree = ast.parse(src)
    fn = [n for n in tree.body if isinstance(n, ast.FunctionDef) and n.name == name]
    if len(fn) != 1:
        raise C.TranslateError('%s: function not found' % name)
    return fn[0]


def translate_solver(name, cfg, repo):
    fn = find_fn(repo, cfg, cfg.get('fn', name))
    ctx = Ctx(name, cfg)
    if 'pre_hash' in cfg:
        # list solvers: the preamble is translated by translate_list_solver (Gen/SolversL.v); here only the
        # per-index programs of the inner loops are emitted (older theorems are stated about them)
        loops = [s for s in fn.body if isinstance(s, ast.For)]
        if len(loops) != 1 or fn.body[-1] is not loops[0]:
            raise C.TranslateError('%s: expected exactly one main loop as the last statement' % name)
        stmt(ctx, loops[0], ctx.pre, 0)
    else:
        stmts(ctx, fn.body, ctx.pre, 0)
    if ctx.body is None:
        raise C.TranslateError('%s: no loop found' % name)
    return ctx


def translate(repo=None):
    repo = repo or C.REPO
    out = ['(* GENERATED by translate/solvers.py from the solver sources -- do not edit. *)',
           'From Coq Require Import ZArith QArith String List.',
           'From Verif Require Import C11.Syntax.',
           'Import ListNotations.',
           'Local Open Scope string_scope.', '']
    for name, cfg in CONFIG.items():
        ctx = translate_solver(name, cfg, repo)
        out.append('(* %s  (%s)' % (name, cfg['file']))
        out.append('   operator symbols: %s' % ', '.join(sorted(ctx.symbols)))
        out.append('   assumed: %s *)' % ', '.join('%s=%s' % kv for kv in sorted(cfg.get('flags', {}).items())))
        if 'pre_hash' not in cfg:
            out.append('Definition %s_pre : list stmt := [' % name)
            out.append(';\n'.join('  ' + s for s in ctx.pre))
            out.append('].')
            out.append('Definition %s_body : list stmt := [' % name)
            out.append(';\n'.join('  ' + s for s in ctx.body))
            out.append('].')
        else:
            for k, (idx, prog) in enumerate(ctx.inner, 1):
                out.append('Definition %s_inner%d : list stmt := [   (* for %s in range(number of operators) *)'
                           % (name, k, idx))
                out.append(';\n'.join('  ' + s for s in prog))
                out.append('].')
            out.append('Definition %s_outer : list ostmt := [' % name)
            out.append(';\n'.join('  ' + (s if s.startswith('(OFor') else '(OStmt %s)' % s) for s in ctx.body))
            out.append('].')
        out.append('')
    # mlem wrapper
    fn = find_fn(repo, CONFIG['osmlem'], 'mlem')
    body = [s for s in fn.body if not (isinstance(s, ast.Expr) and isinstance(s.value, ast.Constant))]
    # exactly: wrap a single element / ndarray into a list, then the one-line call of osmlem
    text = [ast.unparse(b) for b in body]
    if text != MLEM_PRE + [MLEM_BODY]:
        raise C.TranslateError('mlem is no longer the wrapper %s' % MLEM_BODY)
    out.append('(* mlem(op, x, data, niter, callback, **kwargs): sensitivities that are ONE op.domain element or ONE NumPy array '
               'are wrapped into a one-entry list (None, a float, a list pass through), then\n   %s *)' % MLEM_BODY)
    out.append('Definition mlem_is_osmlem_with_one_operator : bool := true.')
    return '\n'.join(out) + '\n'


if __name__ == '__main__':
    print(translate())


# ====================================================================== list solvers, full translation
# Preamble AND main loop of the solvers over lists of operators in the language of coq/C11/SyntaxL.v
# (-> coq/Gen/SolversL.v).  The statement translator above is reused; its output is rewritten into the
# L dialect (structured references instead of name strings).
import re

IDX = 'j'       # the index variable of comprehensions


class _Subst(ast.NodeTransformer):
    def __init__(self, mapping):
        self.mapping = mapping

    def visit_Name(self, node):
        if node.id in self.mapping:
            return ast.parse(self.mapping[node.id], mode='eval').body
        return node


def _ref(ctx, name):
    """name string of the V dialect -> vref term"""
    m = re.match(r'^(\w+)\[(\d+)\]$', name)
    if m:
        return '(RAt %s %s)' % (cstr(m.group(1)), m.group(2))
    m = re.match(r'^(\w+)\[(\w+)\]$', name)
    if m:
        return '(RIdx %s)' % cstr(m.group(1))
    m = re.match(r'^(\w+)\[(\w+)\[(\w+)\]\.range\]$', name)
    if m:
        return '(RKey %s %s)' % (cstr(m.group(1)), cstr(m.group(2)))
    if re.match(r'^\w+$', name):
        return '(RVar %s)' % cstr(name)
    raise C.TranslateError('%s: name %r has no structured form' % (ctx.name, name))


def to_L(ctx, t):
    """rewrite one statement of the V dialect into the L dialect"""
    t = re.sub(r'\(VName "([^"]*)"\)', lambda m: '(LName %s)' % _ref(ctx, m.group(1)), t)
    for k in ('VApp2', 'VApp', 'VAdd', 'VSub', 'VMul', 'VDiv', 'VMaxc', 'VScal', 'VLin', 'VZero', 'VJunk'):
        t = t.replace('(%s ' % k, '(L%s ' % k[1:])
    m = re.match(r'^\(Write "([^"]*)" (.*)\)$', t, re.S)
    if m:
        return '(LWrite %s %s)' % (_ref(ctx, m.group(1)), m.group(2))
    m = re.match(r'^\(Callback "([^"]*)"\)$', t)
    if m:
        return '(LCallback %s)' % _ref(ctx, m.group(1))
    m = re.match(r'^\(Alias "([^"]*)" "([^"]*)"\)$', t)
    if m:
        if '[' in m.group(1):        # l[idx] = other : rebinding a list slot
            return '(LSetSlot %s (LName %s))' % (cstr(m.group(1).split('[')[0]), _ref(ctx, m.group(2)))
        return '(LAlias %s %s)' % (cstr(m.group(1)), _ref(ctx, m.group(2)))
    m = re.match(r'^\(Bind "([^"]*)" (.*)\)$', t, re.S)
    if m:
        if '[' in m.group(1):
            return '(LSetSlot %s %s)' % (cstr(m.group(1).split('[')[0]), m.group(2))
        return '(LBind %s %s)' % (cstr(m.group(1)), m.group(2))
    raise C.TranslateError('%s: statement outside the list dialect: %s' % (ctx.name, t[:100]))


def _comp_mapping(ctx, gens, node):
    """loop variables of a comprehension -> indexed expressions (strings)"""
    if len(gens) != 1 or gens[0].ifs or gens[0].is_async:
        ctx.err(node, 'comprehension shape')
    g = gens[0]
    it, tg = g.iter, g.target
    lists = ctx.oplists | ctx.vlists | ctx.slists | ctx.splists
    if isinstance(it, ast.Name) and it.id in lists | ctx.keysets and isinstance(tg, ast.Name):
        return {tg.id: '%s[%s]' % (it.id, IDX)} if it.id in lists else {tg.id: '#key'}
    if isinstance(it, ast.Call) and isinstance(it.func, ast.Name) and it.func.id == 'zip' \
            and isinstance(tg, ast.Tuple) and len(tg.elts) == len(it.args) \
            and all(isinstance(a, ast.Name) and a.id in lists for a in it.args) \
            and all(isinstance(t, ast.Name) for t in tg.elts):
        return {t.id: '%s[%s]' % (a.id, IDX) for t, a in zip(tg.elts, it.args)}
    if isinstance(tg, ast.Name) and is_index_range(ctx, it) and not isinstance(it, ast.Name):
        return {tg.id: IDX}
    ctx.err(node, 'comprehension generator')


def pre_stmt(ctx, s, out):
    """one preamble statement of a list solver"""
    if isinstance(s, ast.Expr) and isinstance(s.value, ast.Constant) and isinstance(s.value.value, str):
        return
    if isinstance(s, ast.If):
        test = ast.unparse(s.test)
        if test in ctx.flags:
            for t in (s.body if ctx.flags[test] else s.orelse):
                pre_stmt(ctx, t, out)
            return
        if is_validation_if(s):
            return
        ctx.err(s, 'preamble if-test is neither input validation nor a configured flag')
    if isinstance(s, ast.Assign) and len(s.targets) == 1:
        t, v = s.targets[0], s.value
        tn = t.id if isinstance(t, ast.Name) else None
        # n = len(ops)
        if tn in ('length', 'n_ops', 'm') and isinstance(v, ast.Call) and ast.unparse(v.func) == 'len' \
                and len(v.args) == 1 and isinstance(v.args[0], ast.Name) and v.args[0].id in ctx.oplists:
            return
        # option normalisation: callback_loop, callback_loop_in = str(callback_loop).lower(), callback_loop
        if isinstance(t, ast.Tuple) and all(isinstance(e, ast.Name) and e.id in ctx.options for e in t.elts):
            return
        # omega = normalized_scalar_param_list(omega, len(ops), param_conv=float)
        if tn in ctx.slists and isinstance(v, ast.Call) and ast.unparse(v.func) == 'normalized_scalar_param_list' \
                and isinstance(v.args[0], ast.Name) and v.args[0].id == tn:
            return
        # tau, sigma = douglas_rachford_pd_stepsize(L, tau, sigma)
        if isinstance(t, ast.Tuple) and all(isinstance(e, ast.Name) and (e.id in ctx.scalars or e.id in ctx.slists)
                                            for e in t.elts) \
                and isinstance(v, ast.Call) and ast.unparse(v.func) == 'douglas_rachford_pd_stepsize':
            return
        # rans = {Li.range for Li in L}
        if tn is not None and isinstance(v, ast.SetComp):
            mp = _comp_mapping(ctx, v.generators, s)
            elt = _Subst(mp).visit(ast.parse(ast.unparse(v.elt), mode='eval').body)
            ctx.idx = IDX
            try:
                if space_expr(ctx, elt) is None:
                    ctx.err(s, 'set comprehension of non-spaces')
            finally:
                ctx.idx = None
            ctx.keysets.add(tn)
            return
        # unique_ranges = set(ranges)
        if tn is not None and isinstance(v, ast.Call) and ast.unparse(v.func) == 'set' and len(v.args) == 1 \
                and isinstance(v.args[0], ast.Name) and v.args[0].id in ctx.splists:
            ctx.keysets.add(tn)
            return
        if tn is not None and isinstance(v, ast.ListComp):
            mp = _comp_mapping(ctx, v.generators, s)
            elt = _Subst(mp).visit(ast.parse(ast.unparse(v.elt), mode='eval').body)
            ctx.idx = IDX
            try:
                # ranges = [opi.range for opi in L]
                sp = space_expr(ctx, elt)
                if sp is not None:
                    ctx.splists.add(tn)
                    return
                sym = op_symbol(ctx, elt)
                if sym is not None:                 # proxs = [func.convex_conj.proximal(...) for ...]
                    ctx.oplist_alias[tn] = sym.replace('[%s]' % IDX, '[#]')
                    return
                ref = vname(ctx, elt)
                if ref is not None:                 # a list of references to existing objects
                    ctx.vlists.add(tn)
                    out.append('(PListRef %s %s)' % (cstr(tn), _ref(ctx, ref)))
                    return
                if isinstance(elt, ast.Call) and isinstance(elt.func, ast.Attribute) and elt.func.attr == 'element' \
                        and not elt.args and not elt.keywords and space_expr(ctx, elt.func.value) is not None:
                    e = '(LJunk %s)' % cstr(tn)
                else:
                    pend = []
                    e = to_L_expr(ctx, vx(ctx, elt, pend.append))
                    if pend:
                        ctx.err(s, 'side effect inside a comprehension')
                ctx.vlists.add(tn)
                out.append('(PList %s %s)' % (cstr(tn), e))
                return
            finally:
                ctx.idx = None
        if tn is not None and isinstance(v, ast.DictComp):
            mp = _comp_mapping(ctx, v.generators, s)
            if not (isinstance(v.key, ast.Name) and mp.get(v.key.id) == '#key' and isinstance(v.value, ast.Call)
                    and isinstance(v.value.func, ast.Attribute) and v.value.func.attr in ('element', 'zero')
                    and isinstance(v.value.func.value, ast.Name) and v.value.func.value.id == v.key.id
                    and not v.value.args and not v.value.keywords):
                ctx.err(s, 'dict comprehension shape')
            ctx.dicts.add(tn)
            if v.value.func.attr == 'zero':
                out.append('(PDict %s (LZero %s))' % (cstr(tn), cstr(tn + '[key]')))
            else:
                out.append('(PDict %s (LJunk %s))' % (cstr(tn), cstr(tn)))
            return
    # everything else: the plain statement translator (validation, scalars, spaces, operator aliases, Bind ...)
    tmp = []
    stmt(ctx, s, tmp, 0)
    for t in tmp:
        out.append('(PStmt %s)' % to_L(ctx, t))


def to_L_expr(ctx, t):
    t = re.sub(r'\(VName "([^"]*)"\)', lambda m: '(LName %s)' % _ref(ctx, m.group(1)), t)
    for k in ('VApp2', 'VApp', 'VAdd', 'VSub', 'VMul', 'VDiv', 'VMaxc', 'VScal', 'VLin', 'VZero', 'VJunk'):
        t = t.replace('(%s ' % k, '(L%s ' % k[1:])
    return t


LCONFIG = {
    'adupdates': dict(CONFIG['adupdates'], vlists=[], oplists=['L', 'g'], dicts=[], splists=[],
                      options=['callback_loop', 'callback_loop_in']),
    'adupdates_simple': dict(CONFIG['adupdates_simple'], vlists=[], oplists=['L', 'g'], splists=[]),
    'kaczmarz': dict(CONFIG['kaczmarz'], vectors=['x'], vlists=['rhs'], dicts=[], splists=[],
                     options=['callback_loop', 'callback_loop_in']),
    'osmlem': dict(CONFIG['osmlem'], vectors=['x'], vlists=['data'], scalars=['niter', 'eps'],
                   optional=['sensitivities'],
                   flags=dict(CONFIG['osmlem']['flags'], **{'sensitivities is None': True})),
}


DR = dict(file=N + 'douglas_rachford.py', scalars=['tau', 'niter', 'lam', 'lam_in', 'lam_k'], vectors=['x'],
          operators=['f'], oplists=['L', 'g', 'l'], slists=['sigma'], vlists=[], dicts=[], splists=[],
          optional=['l'], options=[],
          flags={'callback is not None': True, 'len(L) > 0': True, 'l is not None': False,
                 'l is not None and len(l) != m': False})
LCONFIG['douglas_rachford_pd'] = DR
LCONFIG['douglas_rachford_pd_noops'] = dict(DR, fn='douglas_rachford_pd', flags=dict(DR['flags'], **{'len(L) > 0': False}))
LCONFIG['douglas_rachford_pd_l'] = dict(DR, fn='douglas_rachford_pd',
                                        flags=dict(DR['flags'], **{'l is not None': True}))
LCONFIG['kaczmarz_random'] = dict(LCONFIG['kaczmarz'], fn='kaczmarz',
                                  flags=dict(LCONFIG['kaczmarz']['flags'], random=True))
LCONFIG['adupdates_random'] = dict(LCONFIG['adupdates'], fn='adupdates',
                                   flags=dict(LCONFIG['adupdates']['flags'], random=True))
LCONFIG['adupdates_simple_random'] = dict(LCONFIG['adupdates_simple'], fn='adupdates_simple',
                                          flags=dict(LCONFIG['adupdates_simple']['flags'], random=True))


def translate_list_solver(name, cfg, repo):
    cfg = dict(cfg)
    cfg.pop('pre_hash', None)
    fn = find_fn(repo, cfg, cfg.get('fn', name))
    ctx = Ctx(name + '_l', cfg)
    pre = []
    loops = [s for s in fn.body if isinstance(s, ast.For)]
    if len(loops) != 1 or fn.body[-1] is not loops[0]:
        raise C.TranslateError('%s: expected exactly one main loop as the last statement' % name)
    for s in fn.body[:-1]:
        pre_stmt(ctx, s, pre)
    stmt(ctx, loops[0], [], 0)
    items = []
    k = 0
    for t in ctx.body:
        if t.startswith('(OIfLast '):
            progs = [u for u in t[len('(OIfLast '):-1].split(' ;; ') if u]
            items.append('(IIfLast [' + '; '.join(to_L(ctx, u) for u in progs) + '])')
        elif t.startswith('(OFor'):
            idx, prog = ctx.inner[k]
            k += 1
            head = 'IForOrd' if t.startswith('(OForOrd') else \
                ('IForFrom %s' % t[len('(OForFrom'):].split(' ')[0] if t.startswith('(OForFrom') else 'IFor')
            items.append('(%s [\n' % head
                         + ';\n'.join('      ' + to_L(ctx, u) for u in prog) + '])')
        else:
            items.append('(IStmt %s)' % to_L(ctx, t))
    return ctx, pre, items


def translate_l(repo=None):
    repo = repo or C.REPO
    out = ['(* GENERATED by translate/solvers.py (list solvers, preamble included) -- do not edit. *)',
           'From Coq Require Import ZArith QArith String List.',
           'From Verif Require Import C11.Syntax C11.SyntaxL.',
           'Import ListNotations.',
           'Local Open Scope string_scope.', '']
    for name, cfg in LCONFIG.items():
        ctx, pre, items = translate_list_solver(name, cfg, repo)
        out.append('(* %s  (%s)' % (name, cfg['file']))
        out.append('   operator symbols: %s' % ', '.join(sorted(ctx.symbols)))
        out.append('   assumed: %s *)' % ', '.join('%s=%s' % kv for kv in sorted(cfg.get('flags', {}).items())))
        out.append('Definition %s_lpre : list pstmt := [' % name)
        out.append(';\n'.join('  ' + t for t in pre))
        out.append('].')
        out.append('Definition %s_lbody : list litem := [' % name)
        out.append(';\n'.join('  ' + t for t in items))
        out.append('].')
        out.append('')
    return '\n'.join(out) + '\n'


# ====================================================================== aliased proximal call sites
def alias_sites(repo=None):
    """(solver, operator symbol, buffer) for every regenerated statement  sym(buf, out=buf)  /
    sym(buf.lincomb(...), out=buf)  whose symbol is a proximal: the call sites where a proximal operator is
    evaluated with `out` aliased to its input."""
    sites = []
    text = translate(repo)
    for name, body in re.findall(r'Definition (\w+?)_(?:body|inner\d+) : list stmt := \[(.*?)\n\]\.', text, re.S):
        for m in re.finditer(r'\(Write "([^"]+)" \(VApp "([^"]*proximal[^"]*)" \(VName "([^"]+)"\)\)\)', body):
            if m.group(1) == m.group(3):
                sites.append((name, m.group(2), m.group(1)))
    textl = translate_l(repo)
    for name, body in re.findall(r'Definition (\w+?)_lbody : list litem := \[(.*?)\n\]\.', textl, re.S):
        for m in re.finditer(r'\(LWrite (\(R\w+ [^()]*\)) \(LApp "([^"]*proximal[^"]*)" \(LName (\(R\w+ [^()]*\))\)\)\)', body):
            if m.group(1) == m.group(3):
                sites.append((name, m.group(2), m.group(1)))
    out = []
    for s in sites:
        if s not in out:
            out.append(s)
    return out
