"""Fail-closed translator: the `derivative` methods (and `linear=` flags) of the operator classes
     odl/operator/operator.py    OperatorSum, OperatorVectorSum, OperatorComp, OperatorPointwiseProduct,
                                 OperatorLeftScalarMult, OperatorRightScalarMult, FunctionalLeftVectorMult,
                                 OperatorLeftVectorMult, OperatorRightVectorMult, Operator (base)
     odl/operator/pspace_ops.py  ProductSpaceOperator, BroadcastOperator, ReductionOperator, DiagonalOperator
     odl/operator/default_ops.py PowerOperator, NormOperator, DistOperator, ConstantOperator, RealPart, ImagPart
  ->  coq/Gen/Derivatives.v   (syntax: coq/C06/Syntax.v: dex, linex, brule, lrule)

Grammar of an expression-class body (anything else raises TranslateError):
  body  := stmt* ; stmt := `if COND: body else: body` | NAME = expr | return expr
  COND  := self.is_linear | self.<sub>.is_linear          <sub> in left, right, operator, functional
  expr  := self | self.<sub> | NAME (a local assigned before)
         | self.<sub>.derivative(PT)
         | OperatorSum(expr, expr, self.__tmp*..., tmp*=self.__tmp*...) | OperatorComp(expr, expr, self.__tmp*...)   (scratch elements: no meaning)
         | FunctionalLeftVectorMult(expr, self.vector)
         | self.scalar * expr | expr * self.scalar | self.vector * expr | expr * self.vector
         | self.<sub>(x) * expr | expr + expr
  PT    := x | self.<sub>(x) | self.scalar * x | self.vector * x
An `if` whose branches assign the same local is turned into a conditional expression.
"""
import ast
import os

from harness.common import TranslateError, REPO

SUBS = {'left': 'SLeft', 'right': 'SRight', 'operator': 'SOperator', 'functional': 'SFunctional'}
OCLASSES = [('OperatorSum', 'CSum'), ('OperatorVectorSum', 'CVecSum'), ('OperatorComp', 'CComp'),
            ('OperatorPointwiseProduct', 'CPProd'), ('OperatorLeftScalarMult', 'CLScal'),
            ('OperatorRightScalarMult', 'CRScal'), ('FunctionalLeftVectorMult', 'CFLVec'),
            ('OperatorLeftVectorMult', 'CLVec'), ('OperatorRightVectorMult', 'CRVec')]


class Tr(object):
    def __init__(self, src):
        self.src = src
        self.tree = ast.parse(open(os.path.join(REPO, src)).read())
        self.classes = {n.name: n for n in self.tree.body if isinstance(n, ast.ClassDef)}

    def fail(self, node, why):
        raise TranslateError('%s:%s: %s: %s' % (self.src, getattr(node, 'lineno', '?'), why,
                                                ast.unparse(node)[:160] if node is not None else ''))

    def method(self, cls, name):
        if cls not in self.classes:
            self.fail(None, 'class %s not found' % cls)
        for n in self.classes[cls].body:
            if isinstance(n, ast.FunctionDef) and n.name == name:
                return n
        return None

    @staticmethod
    def body(fd):
        b = fd.body
        if b and isinstance(b[0], ast.Expr) and isinstance(b[0].value, ast.Constant) and isinstance(b[0].value.value, str):
            b = b[1:]
        return b


def is_self_attr(node, attr=None):
    return (isinstance(node, ast.Attribute) and isinstance(node.value, ast.Name) and node.value.id == 'self'
            and (attr is None or node.attr == attr))


class ExprTr(object):
    """one derivative(self, <arg>) body of an expression class"""

    def __init__(self, tr, fd):
        self.tr = tr
        args = [a.arg for a in fd.args.args]
        if len(args) != 2 or args[0] != 'self':
            tr.fail(fd, 'derivative signature')
        self.x = args[1]

    def sub(self, node):
        if is_self_attr(node) and node.attr in SUBS:
            return SUBS[node.attr]
        return None

    def is_x(self, node):
        return isinstance(node, ast.Name) and node.id == self.x

    def call_sub_x(self, node):
        """self.<sub>(x) -> sub"""
        if (isinstance(node, ast.Call) and len(node.args) == 1 and not node.keywords and self.is_x(node.args[0])):
            return self.sub(node.func)
        return None

    def pt(self, node):
        if self.is_x(node):
            return 'PX'
        s = self.call_sub_x(node)
        if s:
            return '(PAt %s)' % s
        if isinstance(node, ast.BinOp) and isinstance(node.op, ast.Mult) and self.is_x(node.right):
            if is_self_attr(node.left, 'scalar'):
                return 'PScalX'
            if is_self_attr(node.left, 'vector'):
                return 'PVecX'
        self.tr.fail(node, 'evaluation point outside grammar')

    def cond(self, node):
        if is_self_attr(node, 'is_linear'):
            return 'CSelfLin'
        if isinstance(node, ast.Attribute) and node.attr == 'is_linear' and self.sub(node.value):
            return '(CSubLin %s)' % self.sub(node.value)
        self.tr.fail(node, 'condition outside grammar')

    def expr(self, node, env):
        if isinstance(node, ast.Name):
            if node.id == 'self':
                return 'DSelf'
            if node.id in env:
                return env[node.id]
            self.tr.fail(node, 'unknown name')
        if self.sub(node):
            return '(DSub %s)' % self.sub(node)
        if isinstance(node, ast.Call):
            f = node.func
            if (isinstance(f, ast.Attribute) and f.attr == 'derivative' and self.sub(f.value)
                    and len(node.args) == 1 and not node.keywords):
                return '(DDeriv %s %s)' % (self.sub(f.value), self.pt(node.args[0]))
            if isinstance(f, ast.Name) and f.id in ('OperatorSum', 'OperatorComp') \
                    and all(k.arg and k.arg.startswith('tmp') and is_self_attr(k.value)
                            and k.value.attr.startswith('__tmp') for k in node.keywords) \
                    and len(node.args) >= 2 and all(is_self_attr(a) and a.attr.startswith('__tmp') for a in node.args[2:]):
                return '(DCtor2 %s %s %s)' % ('KSum' if f.id == 'OperatorSum' else 'KComp',
                                              self.expr(node.args[0], env), self.expr(node.args[1], env))
            if isinstance(f, ast.Name) and f.id == 'FunctionalLeftVectorMult' and not node.keywords \
                    and len(node.args) == 2 and is_self_attr(node.args[1], 'vector'):
                return '(DFLVec %s)' % self.expr(node.args[0], env)
            self.tr.fail(node, 'call outside grammar')
        if isinstance(node, ast.BinOp):
            if isinstance(node.op, ast.Add):
                return '(DAdd %s %s)' % (self.expr(node.left, env), self.expr(node.right, env))
            if isinstance(node.op, ast.Mult):
                l, r = node.left, node.right
                if is_self_attr(l, 'scalar'):
                    return '(DScalMul %s)' % self.expr(r, env)
                if is_self_attr(r, 'scalar'):
                    return '(DMulScal %s)' % self.expr(l, env)
                if is_self_attr(l, 'vector'):
                    return '(DVecMul %s)' % self.expr(r, env)
                if is_self_attr(r, 'vector'):
                    return '(DMulVec %s)' % self.expr(l, env)
                s = self.call_sub_x(l)
                if s:
                    return '(DValMul %s %s)' % (s, self.expr(r, env))
        self.tr.fail(node, 'expression outside grammar')

    def block(self, stmts, env):
        """returns ('ret', dex) if the block returns, else ('env', env')"""
        env = dict(env)
        for i, st in enumerate(stmts):
            if isinstance(st, ast.Return):
                if i != len(stmts) - 1:
                    self.tr.fail(st, 'code after return')
                return 'ret', self.expr(st.value, env)
            if isinstance(st, ast.Assign) and len(st.targets) == 1 and isinstance(st.targets[0], ast.Name):
                env[st.targets[0].id] = self.expr(st.value, env)
                continue
            if isinstance(st, ast.If):
                c = self.cond(st.test)
                k1, v1 = self.block(st.body, env)
                k2, v2 = self.block(st.orelse, env)
                if k1 == 'ret' and k2 == 'ret':
                    if i != len(stmts) - 1:
                        self.tr.fail(st, 'code after an if that returns on both sides')
                    return 'ret', '(DIf %s %s %s)' % (c, v1, v2)
                if k1 == 'env' and k2 == 'env':
                    new = {k for k in set(v1) | set(v2) if v1.get(k) != env.get(k) or v2.get(k) != env.get(k)}
                    for k in new:
                        if k not in v1 or k not in v2:
                            self.tr.fail(st, 'local %s assigned on one side only' % k)
                        env[k] = '(DIf %s %s %s)' % (c, v1[k], v2[k])
                    continue
                self.tr.fail(st, 'if with a return on one side only')
            self.tr.fail(st, 'statement outside grammar')
        return 'env', env


def linear_flag(tr, cls):
    """the `linear` argument of the super().__init__ / Operator.__init__ call in cls.__init__"""
    fd = tr.method(cls, '__init__')
    if fd is None:
        tr.fail(None, '%s.__init__ not found' % cls)
    calls = [n for n in ast.walk(fd) if isinstance(n, ast.Call) and isinstance(n.func, ast.Attribute)
             and n.func.attr == '__init__']
    if len(calls) != 1:
        tr.fail(fd, 'expected exactly one __init__ call')
    c = calls[0]
    val = None
    for kw in c.keywords:
        if kw.arg == 'linear':
            val = kw.value
    if val is None and len(c.args) >= 3:
        val = c.args[2]
    if val is None:
        return 'LinFalse'
    if isinstance(val, ast.Constant) and val.value is False:
        return 'LinFalse'

    def lin_of(n):       # <name>.is_linear with <name> a constructor argument named like the field
        if isinstance(n, ast.Attribute) and n.attr == 'is_linear' and isinstance(n.value, ast.Name):
            nm = n.value.id
            if nm in SUBS:
                return SUBS[nm]
        return None
    if lin_of(val):
        return '(LinOf %s)' % lin_of(val)
    if isinstance(val, ast.BoolOp) and isinstance(val.op, ast.And) and len(val.values) == 2 \
            and lin_of(val.values[0]) and lin_of(val.values[1]):
        return '(LinBoth %s %s)' % (lin_of(val.values[0]), lin_of(val.values[1]))
    tr.fail(val, 'linear flag outside grammar')


def block_rule(tr, cls, ctor):
    fd = tr.method(cls, 'derivative')
    if fd is None:
        tr.fail(None, '%s.derivative not found' % cls)
    x = fd.args.args[1].arg
    b = [s for s in Tr.body(fd) if not isinstance(s, (ast.Import, ast.ImportFrom))]
    linself = False
    if b and isinstance(b[0], ast.If) and ast.unparse(b[0]) == 'if self.is_linear:\n    return self':
        linself = True
        b = b[1:]
    src = '\n'.join(ast.unparse(s) for s in b)
    forms = {
        'BSame': ['return %s(*[op.derivative(%s) for op in self.operators])' % (ctor, x)],
        'BZip': ['return %s(*[op.derivative(xi) for op, xi in zip(self.operators, %s)])' % (ctor, x),
                 '%s = self.domain.element(%s)\nderivs = [op.derivative(p) for op, p in zip(self.operators, %s)]\n'
                 'return %s(*derivs, domain=self.domain, range=self.range)' % (x, x, x, ctor)],
        'BCol': ['deriv_ops = [op.derivative(%s[col]) for op, col in zip(self.ops.data, self.ops.col)]\n'
                 'data = np.empty(len(deriv_ops), dtype=object)\ndata[:] = deriv_ops\n'
                 'indices = [self.ops.row, self.ops.col]\nshape = self.ops.shape\n'
                 'deriv_matrix = COOMatrix(data, indices, shape)\n'
                 'return %s(deriv_matrix, self.domain, self.range)' % (x, ctor)],
    }
    for k, alts in forms.items():
        if src in alts:
            return '{| b_linself := %s; b_pt := %s |}' % ('true' if linself else 'false', k)
    tr.fail(fd, 'block rule outside grammar')


def leaf_rule(tr, cls):
    fd = tr.method(cls, 'derivative')
    if fd is None:
        return 'LRLinSelfElseRaise'      # inherited Operator.derivative (checked separately)
    x = fd.args.args[1].arg
    src = '\n'.join(ast.unparse(s) for s in Tr.body(fd))
    table = {
        'return self': 'LRSelf',
        'return ZeroOperator(domain=self.domain, range=self.range)': 'LRZero',
        'return self.exponent * MultiplyOperator(%s ** (self.exponent - 1), domain=self.domain, range=self.range)' % x:
            '(LRExpMultiply LVPowM1)',
        '%s = self.domain.element(%s)\nnorm = %s.norm()\nif norm == 0:\n    raise ValueError(\'not differentiable in 0\')\n'
        'return InnerProductOperator(%s / norm)' % (x, x, x, x): '(LRInner LNNorm (LVDiv LVPoint LNNorm))',
    }
    if src in table:
        return table[src]
    # DistOperator: message contains the vector; compare the structure
    b = Tr.body(fd)
    if len(b) == 5 and ast.unparse(b[0]) == '%s = self.domain.element(%s)' % (x, x) \
            and ast.unparse(b[1]) == 'diff = %s - self.vector' % x \
            and ast.unparse(b[2]) == 'dist = self.vector.dist(%s)' % x \
            and isinstance(b[3], ast.If) and ast.unparse(b[3].test) == 'dist == 0' and len(b[3].body) == 1 \
            and isinstance(b[3].body[0], ast.Raise) and not b[3].orelse \
            and ast.unparse(b[4]) == 'return InnerProductOperator(diff / dist)':
        return '(LRInner LNDist (LVDiv LVDiff LNDist))'
    tr.fail(fd, 'leaf derivative outside grammar')


def translate():
    out = ['(* GENERATED by translate/derivatives.py from odl/operator/{operator,pspace_ops,default_ops}.py -- do not edit *)',
           'From Coq Require Import List.', 'From Verif Require Import C06.Syntax.', 'Import ListNotations.', '']
    tr = Tr('odl/operator/operator.py')
    rules, flags = [], []
    for cls, c in OCLASSES:
        fd = tr.method(cls, 'derivative')
        if fd is None:
            tr.fail(None, '%s.derivative not found' % cls)
        et = ExprTr(tr, fd)
        k, v = et.block(Tr.body(fd), {})
        if k != 'ret':
            tr.fail(fd, 'derivative does not return')
        rules.append((c, v))
        flags.append((c, linear_flag(tr, cls)))
    # the base class: linear => self, else raise
    fd = tr.method('Operator', 'derivative')
    base = '\n'.join(ast.unparse(s) for s in Tr.body(fd))
    if not base.startswith('if self.is_linear:\n    return self\nelse:\n    raise OpNotImplementedError('):
        tr.fail(fd, 'Operator.derivative is not `self if linear else raise`')
    out.append('Definition deriv_rule (c : oclass) : dex :=')
    out.append('  match c with')
    for c, v in rules:
        out.append('  | %s => %s' % (c, v))
    out.append('  end.')
    out.append('')
    out.append('Definition linear_flag (c : oclass) : linex :=')
    out.append('  match c with')
    for c, v in flags:
        out.append('  | %s => %s' % (c, v))
    out.append('  end.')
    out.append('')
    tp = Tr('odl/operator/pspace_ops.py')
    out.append('Definition block_rule (c : bclass) : brule :=')
    out.append('  match c with')
    for cls, c in [('BroadcastOperator', 'CBroadcast'), ('ReductionOperator', 'CReduction'),
                   ('DiagonalOperator', 'CDiagonal'), ('ProductSpaceOperator', 'CPSO')]:
        out.append('  | %s => %s' % (c, block_rule(tp, cls, cls)))
    out.append('  end.')
    out.append('')
    td = Tr('odl/operator/default_ops.py')
    out.append('Definition leaf_rule (c : lclass) : lrule :=')
    out.append('  match c with')
    for cls, c in [('PowerOperator', 'KPower'), ('NormOperator', 'KNorm'), ('DistOperator', 'KDist'),
                   ('ConstantOperator', 'KConstant'), ('RealPart', 'KRealPart'), ('ImagPart', 'KImagPart')]:
        out.append('  | %s => %s' % (c, leaf_rule(td, cls)))
    out.append('  | KBase => LRLinSelfElseRaise')
    out.append('  end.')
    # classes that must NOT override derivative (they use the base rule in the model)
    for cls in ('ScalingOperator', 'MultiplyOperator', 'InnerProductOperator', 'ZeroOperator'):
        if td.method(cls, 'derivative') is not None:
            td.fail(td.method(cls, 'derivative'), '%s now overrides derivative' % cls)
    return '\n'.join(out) + '\n'
