"""Fail-closed translator: every `adjoint` property of the anchored operator classes -> coq/Gen/Adjoints.v

Sources: odl/operator/operator.py (expression classes), odl/operator/default_ops.py,
odl/operator/tensor_ops.py, odl/operator/pspace_ops.py, odl/discr/diff_ops.py, odl/discr/discr_ops.py.

Each property body is read as a constructor expression: which class is built, in which operand
order, which scalar / vector is conjugated, which spaces are passed for which parameter.  The result
is a table of terms of the syntax C05/AdjSyntax.v, interpreted by C05/AdjInterp.v and proved equal to
the hand-written `adjoint` / `leaf_adjoint` of C05/Model.v.  Anything outside the grammar below raises
TranslateError.

Grammar (after dropping the docstring and `import` statements):
  body   := [ 'if not self.is_linear: raise ...' ] stmts
  stmts  := 'return' E | 'if' C ':' stmts ('elif' C ':' stmts)* ['else:' stmts]  | raise
            | LET* stmts          (a few recognised local bindings, see _lets)
  expression classes:  E := T '*' T | K(T, T [, tmp...]) | K(*[op.adjoint for op in self.operators] [, domain=.., range=..])
                       T := self.<opnd>.adjoint | self.scalar[.conjugate()] | self.vector[.conj()] | self.vector.T
  leaves:              E := self | op | self.inverse | -E | S '*' E | E '+' E | K(args)
                       args: self.domain | self.range | self.base_space | self.vector.space.field | self.<attr>
                             | self.<attr>.conjugate() | self.<attr>.conj() | np.conj(self.<attr>) | self.<attr>.conj().T
                             | _ADJ_METHOD[self.method] | _ADJ_PADDING[self.pad_mode] | number | 1j | True | <variant>
"""
import ast
import os
from fractions import Fraction

from harness.common import TranslateError, REPO

FILES = {
    'operator': 'odl/operator/operator.py',
    'default': 'odl/operator/default_ops.py',
    'tensor': 'odl/operator/tensor_ops.py',
    'pspace': 'odl/operator/pspace_ops.py',
    'diff': 'odl/discr/diff_ops.py',
    'discr': 'odl/discr/discr_ops.py',
}

# expression classes: source class -> (Gallina name, operator-valued attributes)
ECLS = {
    'OperatorSum': 'ESum', 'OperatorComp': 'EComp', 'OperatorLeftScalarMult': 'ELScal',
    'OperatorRightScalarMult': 'ERScal', 'FunctionalLeftVectorMult': 'EFLVec',
    'OperatorLeftVectorMult': 'ELVec', 'OperatorRightVectorMult': 'ERVec',
    'BroadcastOperator': 'EBcast', 'ReductionOperator': 'EReduce', 'DiagonalOperator': 'EDiag',
}
EFILE = {'BroadcastOperator': 'pspace', 'ReductionOperator': 'pspace', 'DiagonalOperator': 'pspace'}
FLD = {'left': 'FLeft', 'right': 'FRight', 'operator': 'FOperator', 'functional': 'FFunctional'}
NEWK = {'OperatorSum': 'KSum', 'OperatorComp': 'KComp', 'BroadcastOperator': 'KBroadcast',
        'ReductionOperator': 'KReduction', 'DiagonalOperator': 'KDiagonal'}

# leaf classes: (file, class path) -> Gallina class name
LCLS = [
    ('default', 'ScalingOperator', 'CScaling'), ('default', 'MultiplyOperator', 'CMultiply'),
    ('default', 'InnerProductOperator', 'CInnerProduct'), ('default', 'ZeroOperator', 'CZero'),
    ('default', 'RealPart', 'CRealPart'), ('default', 'ImagPart', 'CImagPart'),
    ('default', 'ComplexEmbedding', 'CComplexEmbedding'),
    ('tensor', 'PointwiseInner', 'CPointwiseInner'), ('tensor', 'PointwiseInnerAdjoint', 'CPointwiseInnerAdjoint'),
    ('tensor', 'MatrixOperator', 'CMatrix'), ('tensor', 'SamplingOperator', 'CSampling'),
    ('tensor', 'WeightedSumSamplingOperator', 'CWeightedSumSampling'),
    ('tensor', 'FlatteningOperator', 'CFlattening'),
    ('tensor', 'FlatteningOperator.inverse.FlatteningOperatorInverse', 'CFlatteningInverse'),
    ('pspace', 'ComponentProjection', 'CComponentProjection'),
    ('pspace', 'ComponentProjectionAdjoint', 'CComponentProjectionAdjoint'),
    ('diff', 'PartialDerivative', 'CPartialDerivative'), ('diff', 'Gradient', 'CGradient'),
    ('diff', 'Divergence', 'CDivergence'), ('diff', 'Laplacian', 'CLaplacian'),
    ('discr', 'ResizingOperator', 'CResizing'),
    ('discr', 'ResizingOperator.adjoint.ResizingOperatorAdjoint', 'CResizingAdjoint'),
]
LNAME = {p.split('.')[-1]: g for _, p, g in LCLS}
ATTR = {'scalar': 'AScalar', 'vector': 'AVector', 'multiplicand': 'AMultiplicand', 'matrix': 'AMatrix',
        'axis': 'AAxis', 'sampling_points': 'ASamplingPoints', 'variant': 'AVariant', 'vecfield': 'AVecfield',
        'weights': 'AWeights', 'index': 'AIndex', 'method': 'AMethod', 'pad_mode': 'APadMode',
        'pad_const': 'APadConst'}
AKEY = {'domain': 'KDomain', 'range': 'KRange', 'space': 'KSpace', 'scalar': 'KScalar', 'vector': 'KVector',
        'multiplicand': 'KMultiplicand', 'matrix': 'KMatrix', 'axis': 'KAxis',
        'sampling_points': 'KSamplingPoints', 'variant': 'KVariant', 'sspace': 'KSspace',
        'vecfield': 'KVecfield', 'vfspace': 'KVfspace', 'weighting': 'KWeighting', 'index': 'KIndex',
        'method': 'KMethod', 'pad_mode': 'KPadMode', 'pad_const': 'KPadConst', 'linear': 'KLinear'}
VNAME = {'point_eval': 'NPointEval', 'integrate': 'NIntegrate', 'dirac': 'NDirac', 'char_fun': 'NCharFun'}
TAB = {'_ADJ_METHOD': ('TAdjMethod', 'method'), '_ADJ_PADDING': ('TAdjPadding', 'pad_mode')}


class Ctx(object):
    def __init__(self, src, cls):
        self.src, self.cls = src, cls
        self.lets = {}          # local name -> meaning

    def fail(self, node, why):
        raise TranslateError('%s (%s.adjoint):%s: %s: %s' % (
            self.src, self.cls, getattr(node, 'lineno', '?'), why,
            ast.unparse(node)[:140] if node is not None else ''))


def qlit(fr):
    n, d = fr.numerator, fr.denominator
    return '(%d # %d)' % (n, d) if n >= 0 else '((%d) # %d)' % (n, d)


def lst(items):
    return '[' + '; '.join(items) + ']'


# ------------------------------------------------------------------ locating
def _find_class(body, path):
    """path 'A' or 'A.method.B' (a class defined inside a method/property of A)"""
    parts = path.split('.')
    node = None
    cur = body
    for i, name in enumerate(parts):
        found = None
        for n in cur:
            if isinstance(n, (ast.ClassDef, ast.FunctionDef)) and n.name == name:
                found = n
                break
        if found is None:
            return None
        node = found
        cur = found.body
    return node if isinstance(node, ast.ClassDef) else None


def _adjoint_def(cls):
    for n in cls.body:
        if isinstance(n, ast.FunctionDef) and n.name == 'adjoint':
            if not any(isinstance(d, ast.Name) and d.id == 'property' for d in n.decorator_list):
                raise TranslateError('%s.adjoint is not a property' % cls.name)
            return n
    return None


def _init_params(cls):
    for n in cls.body:
        if isinstance(n, ast.FunctionDef) and n.name == '__init__':
            return [a.arg for a in n.args.args[1:]]
    return None


def _strip(body):
    out = []
    for st in body:
        if isinstance(st, ast.Expr) and isinstance(st.value, ast.Constant) and isinstance(st.value.value, str):
            continue
        if isinstance(st, (ast.Import, ast.ImportFrom)):
            continue
        out.append(st)
    return out


def _is_self_attr(node, name=None):
    return (isinstance(node, ast.Attribute) and isinstance(node.value, ast.Name) and node.value.id == 'self'
            and (name is None or node.attr == name))


def _is_not_linear_guard(st):
    return (isinstance(st, ast.If) and not st.orelse and isinstance(st.test, ast.UnaryOp)
            and isinstance(st.test.op, ast.Not) and _is_self_attr(st.test.operand, 'is_linear')
            and len(st.body) == 1 and isinstance(st.body[0], ast.Raise))


# ------------------------------------------------------- expression classes
def _e_term(cx, node):
    """('o', ox) | ('s', sx) | ('t', ox)"""
    if isinstance(node, ast.Attribute) and node.attr == 'adjoint' and _is_self_attr(node.value) \
            and node.value.attr in FLD:
        return 'o', '(OAdj %s)' % FLD[node.value.attr]
    if _is_self_attr(node, 'scalar'):
        return 's', '(SV SScalar)'
    if _is_self_attr(node, 'vector'):
        return 's', '(SV SVector)'
    if isinstance(node, ast.Call) and not node.args and not node.keywords and isinstance(node.func, ast.Attribute):
        if node.func.attr == 'conjugate' and _is_self_attr(node.func.value, 'scalar'):
            return 's', '(SConj SScalar)'
        if node.func.attr == 'conj' and _is_self_attr(node.func.value, 'vector'):
            return 's', '(SConj SVector)'
    if isinstance(node, ast.Attribute) and node.attr == 'T' and _is_self_attr(node.value, 'vector'):
        return 'o', '(OT SVector)'
    cx.fail(node, 'operand outside the grammar')


def _e_expr(cx, node):
    if isinstance(node, ast.BinOp) and isinstance(node.op, ast.Mult):
        (ka, a), (kb, b) = _e_term(cx, node.left), _e_term(cx, node.right)
        if ka == 's' and kb == 'o':
            return '(OMulL %s %s)' % (a, b)
        if ka == 'o' and kb == 's':
            return '(OMulR %s %s)' % (a, b)
        cx.fail(node, 'product must be scalar/vector times operator')
    if isinstance(node, ast.Call) and isinstance(node.func, ast.Name) and node.func.id in NEWK:
        k = NEWK[node.func.id]
        # K(*[op.adjoint for op in self.operators], domain=self.range, range=self.domain)
        if len(node.args) == 1 and isinstance(node.args[0], ast.Starred):
            inner = node.args[0].value
            if isinstance(inner, ast.Name) and cx.lets.get(inner.id) == 'adjoints':
                pass
            elif not _is_adj_listcomp(inner):
                cx.fail(node, 'starred argument is not the list of adjoints')
            kws = {kw.arg: kw.value for kw in node.keywords}
            if kws:
                if set(kws) != {'domain', 'range'} or not _is_self_attr(kws['domain'], 'range') \
                        or not _is_self_attr(kws['range'], 'domain'):
                    cx.fail(node, 'expected domain=self.range, range=self.domain')
                return '(ONewMap %s true)' % k
            return '(ONewMap %s false)' % k
        if node.keywords:
            cx.fail(node, 'keywords not expected')
        args = []
        for a in node.args:
            # temporaries self.__tmp* are not operands
            if isinstance(a, ast.Attribute) and isinstance(a.value, ast.Name) and a.value.id == 'self' \
                    and 'tmp' in a.attr:
                continue
            kind, t = _e_term(cx, a)
            if kind != 'o':
                cx.fail(a, 'operator argument expected')
            args.append(t)
        return '(ONew %s %s)' % (k, lst(args))
    cx.fail(node, 'expression outside the grammar')


def _is_adj_listcomp(node):
    return (isinstance(node, ast.ListComp) and len(node.generators) == 1
            and isinstance(node.elt, ast.Attribute) and node.elt.attr == 'adjoint'
            and isinstance(node.elt.value, ast.Name)
            and isinstance(node.generators[0].target, ast.Name)
            and node.generators[0].target.id == node.elt.value.id
            and _is_self_attr(node.generators[0].iter, 'operators') and not node.generators[0].ifs)


def _e_rule(cx, stmts):
    stmts = list(stmts)
    while stmts and isinstance(stmts[0], ast.Assign):
        st = stmts.pop(0)
        if len(st.targets) == 1 and isinstance(st.targets[0], ast.Name) and _is_adj_listcomp(st.value):
            cx.lets[st.targets[0].id] = 'adjoints'
        else:
            cx.fail(st, 'assignment outside the grammar')
    if len(stmts) == 1 and isinstance(stmts[0], ast.Return):
        return '(RRet %s)' % _e_expr(cx, stmts[0].value)
    if len(stmts) == 1 and isinstance(stmts[0], ast.If):
        st = stmts[0]
        t = st.test
        if (isinstance(t, ast.Attribute) and t.attr == 'is_real' and isinstance(t.value, ast.Attribute)
                and t.value.attr == 'space' and _is_self_attr(t.value.value, 'vector')) and st.orelse:
            return '(RIfRealVec %s %s)' % (_e_rule(cx, st.body), _e_rule(cx, st.orelse))
    cx.fail(stmts[0] if stmts else None, 'statement outside the grammar')


def expr_rule(tree, src, name):
    cls = _find_class(tree.body, name)
    if cls is None:
        raise TranslateError('%s: class %s not found' % (src, name))
    fn = _adjoint_def(cls)
    if fn is None:
        raise TranslateError('%s: %s has no adjoint property' % (src, name))
    cx = Ctx(src, name)
    body = _strip(fn.body)
    guarded = False
    if body and _is_not_linear_guard(body[0]):
        guarded = True
        body = body[1:]
    return guarded, _e_rule(cx, body)


# ------------------------------------------------------------------- leaves
def _space(cx, node):
    if _is_self_attr(node, 'domain') or (isinstance(node, ast.Attribute) and node.attr == 'domain'
                                         and isinstance(node.value, ast.Name) and cx.lets.get(node.value.id) == 'self'):
        return 'PDom'
    if _is_self_attr(node, 'range') or (isinstance(node, ast.Attribute) and node.attr == 'range'
                                        and isinstance(node.value, ast.Name) and cx.lets.get(node.value.id) == 'self'):
        return 'PRan'
    if _is_self_attr(node, 'base_space'):
        return 'PBase'
    if (isinstance(node, ast.Attribute) and node.attr == 'field' and isinstance(node.value, ast.Attribute)
            and node.value.attr == 'space' and _is_self_attr(node.value.value, 'vector')):
        return 'PField'
    return None


def _gval(cx, node):
    sp = _space(cx, node)
    if sp is not None:
        return '(VSpace %s)' % sp
    if _is_self_attr(node) and node.attr in ATTR:
        return '(VAttr %s)' % ATTR[node.attr]
    # x.conjugate() / x.conj() / np.conj(x)
    if isinstance(node, ast.Call) and not node.keywords:
        f = node.func
        if isinstance(f, ast.Attribute) and f.attr in ('conjugate', 'conj') and not node.args \
                and _is_self_attr(f.value) and f.value.attr in ATTR:
            return '(VConj %s)' % ATTR[f.value.attr]
        if isinstance(f, ast.Attribute) and f.attr == 'conj' and isinstance(f.value, ast.Name) \
                and f.value.id == 'np' and len(node.args) == 1 and _is_self_attr(node.args[0]) \
                and node.args[0].attr in ATTR:
            return '(VConj %s)' % ATTR[node.args[0].attr]
    # self.matrix.conj().T
    if isinstance(node, ast.Attribute) and node.attr == 'T' and isinstance(node.value, ast.Call) \
            and isinstance(node.value.func, ast.Attribute) and node.value.func.attr == 'conj' \
            and not node.value.args and _is_self_attr(node.value.func.value) \
            and node.value.func.value.attr in ATTR:
        return '(VConjT %s)' % ATTR[node.value.func.value.attr]
    if isinstance(node, ast.Attribute) and node.attr == 'T' and _is_self_attr(node.value) and node.value.attr in ATTR:
        return '(VTransp %s)' % ATTR[node.value.attr]
    if isinstance(node, ast.Subscript) and isinstance(node.value, ast.Name) and node.value.id in TAB:
        t, a = TAB[node.value.id]
        if _is_self_attr(node.slice, a):
            return '(VTab %s %s)' % (t, ATTR[a])
    if isinstance(node, ast.Constant):
        v = node.value
        if v is True:
            return 'VTrue'
        if isinstance(v, complex) and v == 1j:
            return 'VImagUnit'
        if isinstance(v, (int, float)) and not isinstance(v, bool):
            return '(VNum %s)' % qlit(Fraction(v))
    if isinstance(node, ast.Name) and isinstance(cx.lets.get(node.id), tuple) and cx.lets[node.id][0] == 'varmap':
        return '(VVarMap %s)' % lst('(%s, %s)' % (VNAME[a], VNAME[b]) for a, b in cx.lets[node.id][1])
    cx.fail(node, 'argument outside the grammar')


def _lsc(cx, node):
    """scalar factor of  S * E"""
    if isinstance(node, ast.Attribute) and node.attr in ('real', 'imag') and _is_self_attr(node.value, 'scalar'):
        return 'SAttrReal' if node.attr == 'real' else 'SAttrImag'
    if isinstance(node, ast.Name) and cx.lets.get(node.id) == 'cellvol':
        return 'SCellVol'
    if isinstance(node, ast.BinOp) and isinstance(node.op, ast.Div) and isinstance(node.left, ast.Constant) \
            and node.left.value == 1 and isinstance(node.right, ast.Name) and cx.lets.get(node.right.id) == 'cellvol':
        return 'SInvCellVol'
    return None


def _lx(cx, node, params_of):
    if isinstance(node, ast.Name) and node.id == 'self':
        return 'XSelf'
    if isinstance(node, ast.Name) and cx.lets.get(node.id) == 'outer':
        return 'XOp'
    if _is_self_attr(node, 'inverse'):
        return 'XInverse'
    if isinstance(node, ast.UnaryOp) and isinstance(node.op, ast.USub):
        return '(XNeg %s)' % _lx(cx, node.operand, params_of)
    if isinstance(node, ast.BinOp) and isinstance(node.op, ast.Add):
        return '(XAdd %s %s)' % (_lx(cx, node.left, params_of), _lx(cx, node.right, params_of))
    if isinstance(node, ast.BinOp) and isinstance(node.op, ast.Mult):
        s = _lsc(cx, node.left)
        if s is None:
            cx.fail(node, 'left factor is not a recognised scalar')
        return '(XScale %s %s)' % (s, _lx(cx, node.right, params_of))
    if isinstance(node, ast.Call) and isinstance(node.func, ast.Name) and node.func.id in LNAME:
        cname = node.func.id
        params = params_of(cname)
        if params is None:
            cx.fail(node, 'constructor signature of %s not found' % cname)
        args = []
        if len(node.args) > len(params):
            cx.fail(node, 'too many positional arguments')
        for p, a in zip(params, node.args):
            if isinstance(a, ast.Starred):
                cx.fail(a, 'starred argument')
            args.append((p, a))
        for kw in node.keywords:
            if kw.arg is None or kw.arg not in params:
                cx.fail(node, 'unknown keyword %r' % kw.arg)
            args.append((kw.arg, kw.value))
        items = []
        for p, a in args:
            if p not in AKEY:
                cx.fail(a, 'parameter %r has no key' % p)
            items.append('(%s, %s)' % (AKEY[p], _gval(cx, a)))
        return '(XNew %s %s)' % (LNAME[cname], lst(items))
    cx.fail(node, 'expression outside the grammar')


def _cond(cx, t):
    u = ast.unparse(t)
    table = {
        'complex(self.scalar).imag == 0.0': 'CScalarImagZero',
        'self.__domain_is_field': 'CDomainIsField',
        'isinstance(self.domain, RealNumbers)': 'CDomainIsRealNumbers',
        'isinstance(self.domain, ComplexNumbers)': 'CDomainIsComplexNumbers',
        'self.domain.is_complex': 'CDomainIsComplex',
        'self.space_is_real': 'CSpaceIsReal',
        'self.domain.is_real': 'CDomainIsReal',
        'self.scalar.real == self.scalar': 'CScalarIsReal',
        '1j * self.scalar.imag == self.scalar': 'CScalarIsImag',
        'not self.is_linear': 'CNotLinear',
    }
    if u in table:
        return table[u]
    cx.fail(t, 'condition outside the grammar')


def _variant_map(cx, st):
    """if self.variant == 'a': variant = 'b' elif ... else: raise   ->  [(a, b), ...]"""
    pairs = []
    cur = st
    while True:
        t = cur.test
        if not (isinstance(t, ast.Compare) and len(t.ops) == 1 and isinstance(t.ops[0], ast.Eq)
                and _is_self_attr(t.left, 'variant') and isinstance(t.comparators[0], ast.Constant)):
            return None
        if not (len(cur.body) == 1 and isinstance(cur.body[0], ast.Assign)
                and len(cur.body[0].targets) == 1 and isinstance(cur.body[0].targets[0], ast.Name)
                and cur.body[0].targets[0].id == 'variant' and isinstance(cur.body[0].value, ast.Constant)):
            return None
        a, b = t.comparators[0].value, cur.body[0].value.value
        if a not in VNAME or b not in VNAME:
            cx.fail(cur, 'unknown variant name')
        pairs.append((a, b))
        if len(cur.orelse) == 1 and isinstance(cur.orelse[0], ast.If):
            cur = cur.orelse[0]
            continue
        if len(cur.orelse) == 1 and isinstance(cur.orelse[0], ast.Raise):
            return pairs
        return None


def _l_rule(cx, stmts, params_of):
    stmts = list(stmts)
    if not stmts:
        cx.fail(None, 'empty body')
    st = stmts[0]
    # recognised local bindings
    if isinstance(st, ast.Assign) and len(st.targets) == 1 and isinstance(st.targets[0], ast.Name):
        name, v = st.targets[0].id, st.value
        if isinstance(v, ast.Name) and v.id == 'self':
            cx.lets[name] = 'self'
            return _l_rule(cx, stmts[1:], params_of)
        if ast.unparse(v) == "getattr(self.domain, 'cell_volume', 1.0)":
            cx.lets[name] = 'cellvol'
            return _l_rule(cx, stmts[1:], params_of)
        cx.fail(st, 'assignment outside the grammar')
    if isinstance(st, ast.If):
        vm = _variant_map(cx, st)
        if vm is not None:
            cx.lets['variant'] = ('varmap', vm)
            return _l_rule(cx, stmts[1:], params_of)
        c = _cond(cx, st.test)
        if not st.orelse and len(st.body) == 1 and isinstance(st.body[0], ast.Raise) and len(stmts) > 1:
            # guard:  if C: raise ...   followed by the rest
            return '(LIf %s LRaise %s)' % (c, _l_rule(cx, stmts[1:], params_of))
        if len(stmts) != 1:
            cx.fail(st, 'statements after if')
        els = st.orelse if st.orelse else None
        if els is None:
            cx.fail(st, 'if without else')
        return '(LIf %s %s %s)' % (c, _l_rule(cx, st.body, params_of), _l_rule(cx, els, params_of))
    if isinstance(st, ast.Raise) and len(stmts) == 1:
        return 'LRaise'
    if isinstance(st, ast.ClassDef):
        # a local operator class (ResizingOperatorAdjoint): translated separately
        return _l_rule(cx, stmts[1:], params_of)
    if isinstance(st, ast.Return) and len(stmts) == 1:
        return '(LRet %s)' % _lx(cx, st.value, params_of)
    cx.fail(st, 'statement outside the grammar')


def psop_rule(tree, src):
    """ProductSpaceOperator.adjoint: the COO transposition, statement by statement"""
    cls = _find_class(tree.body, 'ProductSpaceOperator')
    fn = _adjoint_def(cls) if cls is not None else None
    if fn is None:
        raise TranslateError('%s: ProductSpaceOperator.adjoint not found' % src)
    cx = Ctx(src, 'ProductSpaceOperator')
    body = _strip(fn.body)
    st = {}
    ret = None
    for node in body:
        if isinstance(node, ast.Assign) and len(node.targets) == 1:
            t = node.targets[0]
            if isinstance(t, ast.Name):
                st[t.id] = node.value
                continue
            if isinstance(t, ast.Subscript) and isinstance(t.value, ast.Name) and ast.unparse(t.slice) == ':':
                st[t.value.id + '[:]'] = node.value
                continue
        if isinstance(node, ast.Return) and node is body[-1]:
            ret = node.value
            continue
        cx.fail(node, 'statement outside the grammar')
    def need(name):
        if name not in st:
            cx.fail(None, 'missing binding %s' % name)
        return st[name]
    # entries
    u = ast.unparse(need('adjoint_ops'))
    if u == '[op.adjoint for op in self.ops.data]':
        adj_entries = 'true'
    elif u in ('[op for op in self.ops.data]', 'list(self.ops.data)'):
        adj_entries = 'false'
    else:
        cx.fail(st['adjoint_ops'], 'entries outside the grammar')
    if ast.unparse(need('data')) != 'np.empty(len(adjoint_ops), dtype=object)' or \
            ast.unparse(need('data[:]')) != 'adjoint_ops':
        cx.fail(st.get('data'), 'data array outside the grammar')
    ind = need('indices')
    if not (isinstance(ind, ast.List) and len(ind.elts) == 2):
        cx.fail(ind, 'indices outside the grammar')
    srcs = []
    for e in ind.elts:
        ue = ast.unparse(e)
        if ue == 'self.ops.row':
            srcs.append('CooRow')
        elif ue == 'self.ops.col':
            srcs.append('CooCol')
        else:
            cx.fail(e, 'index array outside the grammar')
    ush = ast.unparse(need('shape'))
    if ush == '(self.ops.shape[1], self.ops.shape[0])':
        swapped = 'true'
    elif ush in ('(self.ops.shape[0], self.ops.shape[1])', 'self.ops.shape'):
        swapped = 'false'
    else:
        cx.fail(st['shape'], 'shape outside the grammar')
    if ast.unparse(need('adj_matrix')) != 'COOMatrix(data, indices, shape)':
        cx.fail(st['adj_matrix'], 'COOMatrix call outside the grammar')
    if not (isinstance(ret, ast.Call) and isinstance(ret.func, ast.Name) and ret.func.id == 'ProductSpaceOperator'
            and len(ret.args) == 3 and not ret.keywords and ast.unparse(ret.args[0]) == 'adj_matrix'):
        cx.fail(ret, 'return outside the grammar')
    d, r = _space(cx, ret.args[1]), _space(cx, ret.args[2])
    if d is None or r is None:
        cx.fail(ret, 'space arguments outside the grammar')
    return ('Definition psop_rule : psrule :=\n  {| ps_adj_entries := %s; ps_row_src := %s; ps_col_src := %s; '
            'ps_shape_swapped := %s; ps_domain := %s; ps_range := %s |}.'
            % (adj_entries, srcs[0], srcs[1], swapped, d, r))


def translate():
    trees = {}
    for k, rel in FILES.items():
        with open(os.path.join(REPO, rel)) as fh:
            trees[k] = ast.parse(fh.read())
    out = ['(* GENERATED by translate/adjoints.py from the `adjoint` properties of',
           '   ' + ', '.join(sorted(FILES.values())) + ' -- do not edit *)',
           'From Coq Require Import ZArith QArith List.',
           'From Verif Require Import C05.AdjSyntax.',
           'Import ListNotations.', '']
    # ---- expression classes
    rows, guards = [], []
    for name, g in ECLS.items():
        key = EFILE.get(name, 'operator')
        guarded, rule = expr_rule(trees[key], FILES[key], name)
        rows.append('  | %s => %s' % (g, rule))
        guards.append('  | %s => %s' % (g, 'true' if guarded else 'false'))
    out.append('(* the returned expression of <class>.adjoint *)')
    out.append('Definition expr_rules (c : ecls) : rule :=\n  match c with\n' + '\n'.join(rows) + '\n  end.')
    out.append('(* the property starts with `if not self.is_linear: raise` *)')
    out.append('Definition expr_guarded (c : ecls) : bool :=\n  match c with\n' + '\n'.join(guards) + '\n  end.')
    out.append('')

    # ---- leaves
    def params_of(cname):
        for key, path, g in LCLS:
            if path.split('.')[-1] == cname:
                cls = _find_class(trees[key].body, path)
                if cls is None:
                    return None
                ps = _init_params(cls)
                if ps is None and cname == 'ResizingOperatorAdjoint':
                    # inherits Operator.__init__(domain, range, linear=False)
                    return ['domain', 'range', 'linear']
                return ps
        return None

    rows = []
    for key, path, g in LCLS:
        cls = _find_class(trees[key].body, path)
        if cls is None:
            raise TranslateError('%s: class %s not found' % (FILES[key], path))
        fn = _adjoint_def(cls)
        if fn is None:
            raise TranslateError('%s: %s has no adjoint property' % (FILES[key], path))
        cx = Ctx(FILES[key], path)
        # closures: the enclosing method binds  op = self  (FlatteningOperator.inverse, ResizingOperator.adjoint)
        if '.' in path:
            cx.lets['op'] = 'outer'
            cx.lets['deriv'] = 'outer'
            # `scaling` of FlatteningOperator.inverse: getattr(self.domain, 'cell_volume', 1.0) of the outer operator
            outer = _find_class(trees[key].body, path.split('.')[0])
            meth = [n for n in outer.body if isinstance(n, ast.FunctionDef) and n.name == path.split('.')[1]][0]
            for st in meth.body:
                if isinstance(st, ast.Assign) and len(st.targets) == 1 and isinstance(st.targets[0], ast.Name):
                    nm, u = st.targets[0].id, ast.unparse(st.value)
                    if u == 'self':
                        cx.lets[nm] = 'outer'
                    elif u == "getattr(self.domain, 'cell_volume', 1.0)":
                        cx.lets[nm] = 'cellvol'
        body = _strip(fn.body)
        rule = _l_rule(cx, body, params_of)
        rows.append('  | %s => %s' % (g, rule))
    out.append('Definition leaf_rules (c : lcls) : lrule :=\n  match c with\n' + '\n'.join(rows) + '\n  end.')
    out.append('')
    out.append(psop_rule(trees['pspace'], FILES['pspace']))
    return '\n'.join(out) + '\n'


if __name__ == '__main__':
    print(translate())
