"""Fail-closed translator:  the `__init__` of every expression class  ->  coq/Gen/OpTables.v

For each class that operator arithmetic can instantiate, the EFFECTIVE base-class initialisation
(the last `X.__init__(self, ...)` / `super(C, self).__init__(...)` statement of `__init__`, which
is the one whose `linear=` and domain survive) is read from the current source and emitted as

    lin_rule : cls -> linrule      how is_linear is computed from the operands
    dom_rule : cls -> domrule      whose domain the result has

Grammar accepted (anything else raises TranslateError):
  * `__init__` body: any statements; init calls only as top-level expression statements;
  * init call targets: Operator(domain, range, linear=False), Functional(space, linear=False, ..),
    or another expression class called with this class's first/second operand in its first/second slot;
  * linear := absent | False | True | P.is_linear | P.is_linear and Q.is_linear | (constant == 0)
    with P, Q the first two constructor parameters;
  * domain := P.domain | space;
  * FunctionalScalarSum and ZeroFunctional: the exact delegating call (compared as text).
"""
import ast
import os

from harness.common import TranslateError, REPO

OP = 'odl/operator/operator.py'
FN = 'odl/solvers/functional/functional.py'
DF = 'odl/solvers/functional/default_functionals.py'

CLASSES = [
    ('CSum', OP, 'OperatorSum'), ('CVecSum', OP, 'OperatorVectorSum'), ('CComp', OP, 'OperatorComp'),
    ('CPtw', OP, 'OperatorPointwiseProduct'), ('CLScal', OP, 'OperatorLeftScalarMult'),
    ('CRScal', OP, 'OperatorRightScalarMult'), ('CFLVec', OP, 'FunctionalLeftVectorMult'),
    ('CLVec', OP, 'OperatorLeftVectorMult'), ('CRVec', OP, 'OperatorRightVectorMult'),
    ('CFSum', FN, 'FunctionalSum'), ('CFScalSum', FN, 'FunctionalScalarSum'), ('CFComp', FN, 'FunctionalComp'),
    ('CFLScal', FN, 'FunctionalLeftScalarMult'), ('CFRScal', FN, 'FunctionalRightScalarMult'),
    ('CFRVec', FN, 'FunctionalRightVectorMult'),
    ('CConst', DF, 'ConstantFunctional'), ('CZero', DF, 'ZeroFunctional'),
]
NAME2CLS = dict((n, c) for c, _, n in CLASSES)

SCALSUM_CALL = ("super(FunctionalScalarSum, self).__init__(left=func, "
                "right=ConstantFunctional(space=func.domain, constant=scalar))")
ZERO_CALL = "super(ZeroFunctional, self).__init__(space=space, constant=0)"

_trees = {}


def _tree(rel):
    if rel not in _trees:
        with open(os.path.join(REPO, rel)) as fh:
            _trees[rel] = ast.parse(fh.read())
    return _trees[rel]


def fail(rel, node, why):
    raise TranslateError('%s:%s: %s: %s' % (rel, getattr(node, 'lineno', '?'), why,
                                            ast.unparse(node)[:140] if node is not None else ''))


def _classdef(rel, name):
    for n in _tree(rel).body:
        if isinstance(n, ast.ClassDef) and n.name == name:
            return n
    fail(rel, None, 'class %s not found' % name)


def _init(rel, cd):
    for n in cd.body:
        if isinstance(n, ast.FunctionDef) and n.name == '__init__':
            return n
    fail(rel, cd, 'no __init__ in %s' % cd.name)


def _is_init_call(node):
    """X.__init__(self, ...) or super(C, self).__init__(...)  ->  (target name or 'super', call)"""
    if not (isinstance(node, ast.Call) and isinstance(node.func, ast.Attribute) and node.func.attr == '__init__'):
        return None
    v = node.func.value
    if isinstance(v, ast.Name):
        return v.id, node
    if isinstance(v, ast.Call) and isinstance(v.func, ast.Name) and v.func.id == 'super':
        return 'super', node
    return None


def _effective_call(rel, cd):
    fn = _init(rel, cd)
    calls = []
    for st in fn.body:
        top = _is_init_call(st.value) if isinstance(st, ast.Expr) else None
        if top:
            calls.append(top)
        else:
            for sub in ast.walk(st):
                if _is_init_call(sub):
                    fail(rel, sub, 'base-class __init__ called inside a compound statement')
    if not calls:
        fail(rel, fn, 'no base-class __init__ call')
    params = [a.arg for a in fn.args.args[1:]]
    return calls[-1], params


def _args(rel, call, names, skip_self):
    """bind positional/keyword arguments of `call` to the parameter names `names`"""
    pos = list(call.args)
    if skip_self:
        if not (pos and isinstance(pos[0], ast.Name) and pos[0].id == 'self'):
            fail(rel, call, 'expected self as first argument')
        pos = pos[1:]
    out = {}
    if len(pos) > len(names):
        fail(rel, call, 'too many positional arguments')
    for n, a in zip(names, pos):
        out[n] = a
    for kw in call.keywords:
        if kw.arg is None or kw.arg in out:
            fail(rel, call, 'unsupported keyword use')
        out[kw.arg] = kw.value
    return out


def _lin(rel, e, p):
    if e is None:
        return 'LFalse'
    if isinstance(e, ast.Constant) and e.value is False:
        return 'LFalse'
    if isinstance(e, ast.Constant) and e.value is True:
        return 'LTrue'

    def who(x):
        if isinstance(x, ast.Attribute) and x.attr == 'is_linear' and isinstance(x.value, ast.Name):
            if p and x.value.id == p[0]:
                return 1
            if len(p) > 1 and x.value.id == p[1]:
                return 2
        return None
    w = who(e)
    if w == 1:
        return 'LFirst'
    if w == 2:
        return 'LSecond'
    if isinstance(e, ast.BoolOp) and isinstance(e.op, ast.And) and len(e.values) == 2:
        if sorted(filter(None, map(who, e.values))) == [1, 2]:
            return 'LAnd'
    if (isinstance(e, ast.Compare) and len(e.ops) == 1 and isinstance(e.ops[0], ast.Eq)
            and isinstance(e.left, ast.Name) and e.left.id == 'constant'
            and isinstance(e.comparators[0], ast.Constant) and e.comparators[0].value == 0):
        return 'LConstZero'
    fail(rel, e, 'linear= expression outside the grammar')


def _dom(rel, e, p):
    if isinstance(e, ast.Attribute) and e.attr == 'domain' and isinstance(e.value, ast.Name):
        if p and e.value.id == p[0]:
            return 'DFirst'
        if len(p) > 1 and e.value.id == p[1]:
            return 'DSecond'
    if isinstance(e, ast.Name) and e.id == 'space':
        return 'DOwn'
    fail(rel, e, 'domain expression outside the grammar')


def rules(cname, depth=0):
    """(linrule, domrule) of the class with Coq name cname"""
    if depth > 3:
        raise TranslateError('init delegation too deep at %s' % cname)
    rel, pyname = [(r, n) for c, r, n in CLASSES if c == cname][0]
    cd = _classdef(rel, pyname)
    (target, call), params = _effective_call(rel, cd)
    text = ast.unparse(call)
    if cname == 'CFScalSum':
        if text != SCALSUM_CALL:
            fail(rel, call, 'FunctionalScalarSum no longer delegates to FunctionalSum(func, ConstantFunctional)')
        return 'LAndConst', 'DFirst'
    if cname == 'CZero':
        if text != ZERO_CALL:
            fail(rel, call, 'ZeroFunctional no longer delegates to ConstantFunctional(constant=0)')
        lin, _ = rules('CConst', depth + 1)
        if lin != 'LConstZero':
            fail(rel, call, 'ConstantFunctional flag rule changed')
        return 'LTrue', 'DOwn'
    if target == 'super':
        bases = [b.id for b in cd.bases if isinstance(b, ast.Name)]
        if len(bases) != 1:
            fail(rel, cd, 'super() with several bases')
        target, skip_self = bases[0], False
    else:
        skip_self = True
    if target == 'Operator':
        a = _args(rel, call, ['domain', 'range', 'linear'], skip_self)
        if 'domain' not in a:
            fail(rel, call, 'no domain argument')
        return _lin(rel, a.get('linear'), params), _dom(rel, a['domain'], params)
    if target == 'Functional':
        a = _args(rel, call, ['space', 'linear', 'grad_lipschitz'], skip_self)
        if 'space' not in a:
            fail(rel, call, 'no space argument')
        return _lin(rel, a.get('linear'), params), _dom(rel, a['space'], params)
    if target in NAME2CLS:
        tcls = NAME2CLS[target]
        trel, tname = [(r, n) for c, r, n in CLASSES if c == tcls][0]
        tparams = [x.arg for x in _init(trel, _classdef(trel, tname)).args.args[1:]]
        a = _args(rel, call, tparams, skip_self)
        first = a.get(tparams[0])
        if not (isinstance(first, ast.Name) and params and first.id == params[0]):
            fail(rel, call, 'first operand is not passed through')
        if len(tparams) > 1 and len(params) > 1:
            second = a.get(tparams[1])
            if not (isinstance(second, ast.Name) and second.id == params[1]):
                fail(rel, call, 'second operand is not passed through')
        return rules(tcls, depth + 1)
    fail(rel, call, 'unknown base-class initialiser %s' % target)


def translate():
    _trees.clear()
    lines = ['(* GENERATED by translate/op_tables.py from %s, %s, %s -- do not edit. *)' % (OP, FN, DF),
             'From Verif Require Import C04.Model.', '']
    tab = dict((c, rules(c)) for c, _, _ in CLASSES)
    lines.append('Definition lin_rule (c : cls) : linrule :=\n  match c with')
    for c, _, n in CLASSES:
        lines.append('  | %s => %s   (* %s *)' % (c, tab[c][0], n))
    lines.append('  | CLeaf => LFalse\n  end.\n')
    lines.append('Definition dom_rule (c : cls) : domrule :=\n  match c with')
    for c, _, n in CLASSES:
        lines.append('  | %s => %s' % (c, tab[c][1]))
    lines.append('  | CLeaf => DOwn\n  end.')
    return '\n'.join(lines) + '\n'


if __name__ == '__main__':
    print(translate())
