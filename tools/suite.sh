#!/bin/sh
# run the repository's own suite (guard OFF) and print the summary line
cd /repo && env -u ODL_VERIF /venv/bin/python -m pytest -q -p no:cacheprovider --timeout=900 --continue-on-collection-errors "$@" 2>&1 | grep -E "passed|failed|error" | tail -3
