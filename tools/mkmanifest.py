#!/venv/bin/python
"""Regenerate MANIFEST.json from the metadata constants of harness/cNN.py."""
import glob, importlib, json, os, subprocess, sys
HERE = os.path.dirname(os.path.dirname(os.path.abspath(__file__)))
sys.path.insert(0, HERE)
props = [json.loads(l) for l in open(os.path.join(HERE, 'properties.jsonl'))]
checks, na = [], []
claimed = set(open(os.path.join(HERE, 'tools', 'claimed.txt')).read().split())
for p in props:
    pid = p['id']
    f = os.path.join(HERE, 'harness', pid.lower() + '.py')
    if not os.path.exists(f):
        na.append({'property_id': pid, 'reason': 'check not built yet (planned: see DESIGN.md section 4)'})
        continue
    if pid not in claimed:
        na.append({'property_id': pid, 'reason': 'check under construction: present in the tree but not yet passing the integration run on the unchanged tree, so not claimed'})
        continue
    m = importlib.import_module('harness.' + pid.lower())
    checks.append({
        'property_id': pid,
        'quick_cmd': './check %s --tier quick' % pid,
        'thorough_cmd': './check %s --tier thorough' % pid,
        'evidence_file': 'evidence/%s.json' % pid,
        'replay_cmd_template': './check %s --replay {path}' % pid,
        'engine': 'coq-proof+correspondence',
        'level_claimed': {'category': 'proof', 'text': getattr(m, 'LEVEL_TEXT', ''), 'design_ref': 'DESIGN.md section 4, ' + pid},
        'level_note': getattr(m, 'LEVEL_NOTE', ''),
        'technique': getattr(m, 'TECHNIQUE', 'Coq theorems about a model tied to the source by translator and/or in-Coq correspondence'),
    })
hooks = subprocess.check_output(['git', '-C', '/repo', 'log', '--format=%h %s', 'adc2403..HEAD'], text=True).split('\n')
hook_commits = [l.split()[0] for l in hooks if l and not l.split(' ', 1)[1].startswith('fix:')]
man = {
    'version': 1,
    'setup_cmd': './check --setup',
    'hooks': {'guard': 'ODL_VERIF', 'enable': 'no source hooks: checks import /repo directly (PYTHONPATH=/repo) with ODL_VERIF=1 set but unused',
              'baseline_off_cmd': 'cd /repo && env -u ODL_VERIF /venv/bin/python -m pytest -q -p no:cacheprovider --timeout=900 --continue-on-collection-errors',
              'source_commits': hook_commits, 'add_only': True},
    'engines': [{'name': 'coq-proof+correspondence', 'path': 'check',
                 'serves_properties': [c['property_id'] for c in checks],
                 'kind_free_text': 'Coq 8.16.1 theorems over models regenerated from source (translate/) or tied by a correspondence evaluated inside Coq (vm_compute) on generated cases'}],
    'checks': checks,
    'not_applicable': na,
    'notes': 'known_findings.json lists recorded and fixed defects; seeded/ holds validated breaking changes; DESIGN.md section 5 is the trusted base.',
}
json.dump(man, open(os.path.join(HERE, 'MANIFEST.json'), 'w'), indent=1)
print('checks:', [c['property_id'] for c in checks], 'not claimed:', len(na))
