#!/bin/sh
# tools/integrate.sh Cnn  -- merge branch w-cnn into main, build, run the quick check here
# against /repo; claim the property (tools/claimed.txt) only when it exits 0 without VIOLATION.
cd "$(dirname "$0")/.."
pid=$1
n=$(echo $pid | tr 'C' 'c')
git add -A; git commit -qm "evidence before integrating $pid" >/dev/null 2>&1
git merge --no-edit -q -X ours w-$n || { git add -A; git commit -qm "merge w-$n (rename/delete conflicts resolved by keeping both)" || { echo "merge conflict"; git merge --abort; exit 1; }; }
# known_findings.json is owned by main: never take a builder branch's copy
git checkout -q ORIG_HEAD -- known_findings.json 2>/dev/null
/venv/bin/python tools/mkfindings.py
./check --setup >/dev/null 2>&1
out=$(./check $pid --tier quick 2>&1); rc=$?
echo "$out" | tail -4
if [ $rc -eq 0 ] && ! echo "$out" | grep -q '^VIOLATION'; then
  grep -qx $pid tools/claimed.txt || echo $pid >> tools/claimed.txt
  echo "CLAIMED $pid"
else
  sed -i "/^$pid\$/d" tools/claimed.txt
  echo "NOT CLAIMED $pid (rc=$rc)"
fi
/venv/bin/python tools/mkmanifest.py
git add -A
git commit -qm "integrate $pid from w-$n (rc=$rc)" || true
