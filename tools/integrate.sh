#!/bin/sh
# tools/integrate.sh Cnn  -- merge branch w-cnn into main, refresh MANIFEST + known findings
set -e
cd "$(dirname "$0")/.."
pid=$1
n=$(echo $pid | tr 'C' 'c')
git merge --no-edit -q w-$n || { echo "merge conflict"; exit 1; }
/venv/bin/python tools/mkfindings.py
/venv/bin/python tools/mkmanifest.py
git add -A
git commit -qm "integrate $pid from w-$n" || true
echo "integrated $pid"
