#!/venv/bin/python
"""Confirm a seeded breaking change and (optionally) run our check against it.

  tools/verify_seed.py confirm <dir-with-patch.diff,demo.py,meta.json> [--name ID]
      -> scratch worktree of /repo, demo on clean tree (must exit 0), apply patch,
         demo (must exit != 0), full test suite (must equal the clean pass count);
         on success copies the seed to /verif/seeded/<ID>/ and records what was run.
  tools/verify_seed.py check <seeded/ID> [--tier quick]
      -> scratch worktree with the patch applied, ./check <pid> with VERIF_REPO set,
         prints CAUGHT / MISSED and stores the outcome in seeded/<ID>/result.json.
Never touches /repo's working tree.
"""
import argparse
import json
import os
import re
import shutil
import subprocess
import sys
import tempfile

VERIF = os.path.dirname(os.path.dirname(os.path.abspath(__file__)))
PY = '/venv/bin/python'
SCRATCH = '/root/wt/scratch'


def sh(cmd, cwd=None, env=None, timeout=3600):
    e = dict(os.environ)
    e.update(env or {})
    p = subprocess.run(cmd, cwd=cwd, env=e, shell=isinstance(cmd, str), stdout=subprocess.PIPE,
                       stderr=subprocess.STDOUT, text=True, timeout=timeout)
    return p.returncode, p.stdout


def worktree(tag):
    os.makedirs(SCRATCH, exist_ok=True)
    d = os.path.join(SCRATCH, 'repo_%s_%d' % (tag, os.getpid()))
    rc, out = sh(['git', '-C', '/repo', 'worktree', 'add', '-q', '--detach', d, 'HEAD'])
    if rc:
        raise SystemExit('worktree add failed: ' + out)
    return d


def drop(d):
    sh(['git', '-C', '/repo', 'worktree', 'remove', '--force', d])
    shutil.rmtree(d, ignore_errors=True)
    sh(['git', '-C', '/repo', 'worktree', 'prune'])


def suite(d):
    rc, out = sh([PY, '-m', 'pytest', '-q', '-p', 'no:cacheprovider', '--timeout=900',
                  '--continue-on-collection-errors'], cwd=d, env={'PYTHONPATH': d})
    m = re.findall(r'^(?:=+ )?(.*(?:passed|failed|error).*?)(?: =+)?$', out, re.M)
    line = m[-1] if m else out[-300:]
    npass = int((re.search(r'(\d+) passed', line) or [0, 0])[1])
    nfail = int((re.search(r'(\d+) failed', line) or [0, 0])[1]) + int((re.search(r'(\d+) error', line) or [0, 0])[1])
    return npass, nfail, line


def confirm(src, name):
    meta = json.load(open(os.path.join(src, 'meta.json')))
    pid = meta['property']
    name = name or '%s-%s' % (pid, os.path.basename(os.path.normpath(src)))
    d = worktree(name)
    rec = {'seed': name, 'property': pid}
    try:
        demo = os.path.abspath(os.path.join(src, 'demo.py'))
        rc0, out0 = sh([PY, demo], cwd=d, env={'PYTHONPATH': d}, timeout=900)
        rec['demo_clean_exit'] = rc0
        rc, out = sh(['git', 'apply', os.path.abspath(os.path.join(src, 'patch.diff'))], cwd=d)
        if rc:
            rec['error'] = 'patch does not apply: ' + out[-300:]
            print(json.dumps(rec)); return 1
        rc, out = sh(['git', 'diff', '--stat'], cwd=d)
        rec['touches'] = [l.split('|')[0].strip() for l in out.splitlines() if '|' in l]
        rc1, out1 = sh([PY, demo], cwd=d, env={'PYTHONPATH': d}, timeout=900)
        rec['demo_patched_exit'] = rc1
        rec['demo_patched_tail'] = out1[-400:]
        npass, nfail, line = suite(d)
        rec['suite_patched'] = line
        base = int(os.environ.get('BASE_PASS', '3873'))
        ok = (rc0 == 0 and rc1 != 0 and nfail == 0 and npass >= base
              and all(t.startswith('odl/') and '/test/' not in t for t in rec['touches']))
        rec['confirmed'] = ok
        if ok:
            dst = os.path.join(VERIF, 'seeded', name)
            os.makedirs(dst, exist_ok=True)
            for f in ('patch.diff', 'demo.py'):
                shutil.copy(os.path.join(src, f), os.path.join(dst, f))
            meta.update({'breaks': pid, 'needs_to_manifest': meta.get('needs'),
                         'confirmed_by': ['demo.py on clean worktree: exit %d' % rc0,
                                          'demo.py with patch applied: exit %d' % rc1,
                                          'full suite with patch applied: ' + line]})
            json.dump(meta, open(os.path.join(dst, 'meta.json'), 'w'), indent=1)
        print(json.dumps(rec, indent=1))
        return 0 if ok else 1
    finally:
        drop(d)


def framework_copy(vdir, rev='HEAD'):
    """A worktree of /verif's current HEAD, built."""
    if not os.path.isdir(vdir):
        rc, out = sh(['git', '-C', VERIF, 'worktree', 'add', '-q', '--detach', vdir, rev])
        if rc:
            raise SystemExit(out)
    else:
        sh(['git', 'checkout', '-f', '-q', '--detach', subprocess.check_output(
            ['git', '-C', VERIF, 'rev-parse', rev], text=True).strip()], cwd=vdir)
    rc, out = sh([os.path.join(vdir, 'check'), '--setup'], cwd=vdir, timeout=3600)
    if rc:
        raise SystemExit('setup failed in %s: %s' % (vdir, out[-500:]))


def check(seed_dir, tier, vdir):
    seed_dir = os.path.abspath(seed_dir)
    meta = json.load(open(os.path.join(seed_dir, 'meta.json')))
    pid = meta.get('breaks') or meta['property']
    d = worktree(os.path.basename(seed_dir))
    try:
        rc, out = sh(['git', 'apply', os.path.join(seed_dir, 'patch.diff')], cwd=d)
        if rc:
            print('patch does not apply', out); return 2
        # run from a separate checkout of the framework so that Gen/*.v regenerated from the
        # mutated source and the evidence of this run never land in /verif itself
        env = {'VERIF_REPO': d}
        rc, out = sh([os.path.join(vdir, 'check'), pid, '--tier', tier], cwd=vdir, env=env, timeout=3600)
        viol = [l for l in out.splitlines() if l.startswith('VIOLATION')]
        caught = (rc != 0 and bool(viol))
        res = {'seed': os.path.basename(seed_dir), 'property': pid, 'tier': tier, 'exit': rc,
               'caught': caught, 'violation_lines': viol[:5],
               'with_failing_input': any('no-failing-input-found' not in v for v in viol),
               'tail': out.splitlines()[-6:]}
        res['framework_rev'] = subprocess.check_output(['git', 'rev-parse', '--short', 'HEAD'], cwd=vdir, text=True).strip()
        json.dump(res, open(os.path.join(seed_dir, 'result_%s.json' % tier), 'w'), indent=1)
        print('%s %s: %s (exit %d) %s' % (res['seed'], pid, 'CAUGHT' if caught else 'MISSED', rc, viol[:1]))
        return 0 if caught else 1
    finally:
        drop(d)


if __name__ == '__main__':
    ap = argparse.ArgumentParser()
    ap.add_argument('cmd', choices=['confirm', 'check'])
    ap.add_argument('path')
    ap.add_argument('--name')
    ap.add_argument('--tier', default='quick')
    ap.add_argument('--verif', default='/root/wt/vseed')
    ap.add_argument('--no-setup', action='store_true')
    ap.add_argument('--rev', default='HEAD', help='framework revision to test (e.g. a builder branch w-c16)')
    a = ap.parse_args()
    if a.cmd == 'confirm':
        sys.exit(confirm(a.path, a.name))
    if not a.no_setup:
        framework_copy(a.verif, a.rev)
    sys.exit(check(a.path, a.tier, a.verif))
