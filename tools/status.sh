#!/bin/sh
# one line per builder branch: commits ahead of main, age and subject of the last one
cd /verif
for n in 01 02 03 04 05 06 07 08 09 10 11 12 14 15 16 17 18 19 20; do
  b=w-c$n
  printf "%s %2s  %s\n" $b "$(git rev-list --count main..$b 2>/dev/null)" "$(git log -1 --format='%ar | %s' $b | cut -c1-110)"
done
uptime
