#!/bin/sh
# tools/coqchk_all.sh [Cnn ...] -- re-check the compiled property files with the independent
# checker and record the axioms each depends on (trusted/coqchk_<id>.txt).  Minutes per property.
cd "$(dirname "$0")/../coq"
ids=${@:-$(cat ../tools/claimed.txt)}
for pid in $ids; do
  ( timeout 3000 coqchk -silent -o -Q . Verif Verif.$pid.Props > ../trusted/coqchk_$pid.txt 2>&1; echo "exit=$?" >> ../trusted/coqchk_$pid.txt ) &
  # at most 4 at a time (each can take several GB)
  while [ $(pgrep -c coqchk) -ge 6 ]; do sleep 2; done
done
wait
grep -l "exit=0" ../trusted/coqchk_*.txt | wc -l
