#!/venv/bin/python
"""Regenerate the machine-written parts of DESIGN.md (between <!-- AUTO:name --> markers):
open/fixed findings from known_findings.json and the seeded-change table from seeded/*/."""
import json, os, re, subprocess
HERE = os.path.dirname(os.path.dirname(os.path.abspath(__file__)))
kf = json.load(open(os.path.join(HERE, 'known_findings.json')))['findings']

def esc(t, n):
    t = (t or '').replace('|', '/').replace('\n', ' ')
    return t if len(t) <= n else t[:n - 1] + '…'

def findings_md():
    out = []
    open_ = [e for e in kf if e.get('status') == 'open']
    fixed = [e for e in kf if e.get('status') == 'fixed']
    out.append('%d open (recorded, not repaired), %d fixed.\n' % (len(open_), len(fixed)))
    out.append('**Open findings** (each is reported as `KNOWN-FINDING:` by its check; any other violation of the same property is still a `VIOLATION`):\n')
    out.append('| property | key | what fails |')
    out.append('|---|---|---|')
    for e in sorted(open_, key=lambda e: (e['property'], e['key'])):
        out.append('| %s | `%s` | %s |' % (e['property'], e['key'], esc(e['what'], 260)))
    out.append('\n**Fixed** (`fix:` commits in /repo; a fixed entry suppresses nothing):\n')
    out.append('| property | key | commit | what failed |')
    out.append('|---|---|---|---|')
    for e in sorted(fixed, key=lambda e: (e['property'], e['key'])):
        out.append('| %s | `%s` | %s | %s |' % (e['property'], e['key'], e.get('commit', ''), esc(e['what'], 160)))
    return '\n'.join(out)

def status_md():
    import glob
    out = ['| id | theorems in Props.v | obligations (discharged) | correspondence cases | probe evaluations | known findings seen | axioms (Print Assumptions) | wall s |',
           '|---|---|---|---|---|---|---|---|']
    for f in sorted(glob.glob(os.path.join(HERE, 'evidence', 'C*.json'))):
        d = json.load(open(f)); c = d['coverage']
        ax = c.get('print_assumptions_axioms') or []
        short = sorted(set(a.split('.')[-1] for a in ax if not a.startswith(('PrimFloat', 'PrimInt63', 'FloatAxioms'))))
        if any(a.startswith(('PrimFloat', 'FloatAxioms')) for a in ax):
            short.append('primitive floats/ints')
        out.append('| %s | %d | %d (%d) | %d | %d | %d | %s | %.0f |' % (
            d['property_id'], len(c.get('theorems', [])), c.get('obligations', 0), c.get('discharged', 0),
            c.get('evaluations', 0), c.get('probe_evaluations', 0), len(c.get('known_findings_seen', [])),
            ', '.join(short) or 'none (closed)', d.get('wall_s', 0)))
    return '\n'.join(out)

def counts_md():
    import glob
    tr = [f for f in glob.glob(os.path.join(HERE, 'translate', '*.py')) if not f.endswith('__init__.py')]
    gen = glob.glob(os.path.join(HERE, 'coq', 'Gen', '*.v'))
    props = set()
    for f in glob.glob(os.path.join(HERE, 'harness', 'c[0-9][0-9].py')):
        if 'def translate' in open(f).read():
            props.add(os.path.basename(f)[:3].upper())
    return '%d translator files producing %d generated Coq files, used by %d of the 20 properties: %s' % (
        len(tr), len(gen), len(props), ', '.join(sorted(props)))

def counts2_md():
    import glob
    nlines = 0
    for f in glob.glob(os.path.join(HERE, 'coq', '*', '*.v')):
        if '/Gen/' not in f:
            nlines += sum(1 for _ in open(f))
    nthm = 0
    for f in glob.glob(os.path.join(HERE, 'coq', 'C*', 'Props.v')):
        nthm += len(re.findall(r'^\s*(Theorem|Corollary)\s', open(f).read(), re.M))
    return 'about %d 000 lines of hand-written Coq in `coq/` (20 property directories + `Base`, `Lib`; `Gen` is regenerated), %d property theorems' % (round(nlines / 1000.0), nthm)

def levels_md():
    """Per property: what is regenerated from source, the technique and the level text, straight from the
    harness modules (the same strings the checks put into MANIFEST.json and the evidence files)."""
    import glob, importlib, sys
    sys.path.insert(0, HERE)
    out = []
    for f in sorted(glob.glob(os.path.join(HERE, 'harness', 'c[0-9][0-9].py'))):
        m = importlib.import_module('harness.' + os.path.basename(f)[:-3])
        pid = m.PID
        try:
            ev = json.load(open(os.path.join(HERE, 'evidence', pid + '.json')))['coverage']
        except Exception:
            ev = {}
        gen = ev.get('generated_files') or []
        out.append('**%s** — %s.' % (pid, m.TECHNIQUE.strip().rstrip('.')))
        out.append('*Regenerated from /repo on every run:* %s.' % (', '.join('`%s`' % g for g in gen) if gen else
                   'nothing; the hand-written model is tied by the in-Coq correspondence alone'))
        out.append(re.sub(r'\s+', ' ', m.LEVEL_TEXT.strip()))
        note = getattr(m, 'LEVEL_NOTE', '')
        if note:
            out.append('*Modelled, not verified:* ' + re.sub(r'\s+', ' ', note.strip()))
        out.append('')
    return '\n'.join(out)

def seeds_md():
    return subprocess.check_output([os.path.join(HERE, 'tools', 'seed_table.py')], text=True)

p = os.path.join(HERE, 'DESIGN.md')
s = open(p).read()
for name, gen in (('findings', findings_md), ('levels', levels_md), ('seeds', seeds_md), ('status', status_md), ('counts', counts_md), ('counts2', counts2_md)):
    pat = re.compile(r'(<!-- AUTO:%s -->).*?(<!-- /AUTO:%s -->)' % (name, name), re.S)
    if pat.search(s):
        s = pat.sub(lambda m: m.group(1) + '\n' + gen() + '\n' + m.group(2), s)
open(p, 'w').write(s)
print('DESIGN.md regenerated')
