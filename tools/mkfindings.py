#!/venv/bin/python
"""Consolidate findings/Cnn.json (written by per-property builders) into known_findings.json.
Run by hand at integration time only; checks never write either file."""
import glob, json, os
HERE = os.path.dirname(os.path.dirname(os.path.abspath(__file__)))
kf = os.path.join(HERE, 'known_findings.json')
data = json.load(open(kf))
have = {(e['property'], e['key']): e for e in data['findings']}
for f in sorted(glob.glob(os.path.join(HERE, 'findings', 'C*.json'))):
    for e in json.load(open(f)).get('findings', []):
        k = (e['property'], e['key'])
        if k in have:
            if have[k].get('status') == 'fixed':
                continue            # a fixed entry stays fixed
            have[k].update(e)
        else:
            data['findings'].append(e)
            have[k] = e
json.dump(data, open(kf, 'w'), indent=1)
print('known findings:', len(data['findings']), 'open:', sum(e.get('status') == 'open' for e in data['findings']))
