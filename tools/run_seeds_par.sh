#!/bin/sh
# tools/run_seeds_par.sh <tier> <nworkers> [seed ids...]  -- like run_seeds.sh, with several framework checkouts
# (/root/wt/vseed, vseed2, ...). The first is set up by make; the others copy its compiled files.
cd "$(dirname "$0")/.."
tier=$1; nw=$2; shift 2
ids=${@:-$(ls seeded)}
sel=""
for s in $ids; do
  pid=$(echo $s | cut -d- -f1)
  grep -qx $pid tools/claimed.txt || continue
  grep -q obsolete_after_fix seeded/$s/meta.json && continue
  sel="$sel $s"
done
rev=$(git rev-parse HEAD)
# worker 1: full setup
/venv/bin/python - <<PY
import sys; sys.path.insert(0, 'tools')
import verify_seed as V
V.framework_copy('/root/wt/vseed', '$rev')
PY
i=2
while [ $i -le $nw ]; do
  d=/root/wt/vseed$i
  if [ ! -d $d ]; then git worktree add -q --detach $d $rev; else git -C $d checkout -f -q --detach $rev; fi
  rsync -a --include='*/' --include='*.vo' --include='*.vos' --include='*.vok' --include='*.glob' --include='Gen/*.v' --include='Makefile*' --include='_CoqProject' --include='.Makefile.d' --exclude='*' /root/wt/vseed/coq/ $d/coq/
  i=$((i+1))
done
# distribute round robin
k=0
for s in $sel; do k=$((k+1)); w=$(( (k % nw) + 1 )); eval "list$w=\"\$list$w $s\""; done
w=1
while [ $w -le $nw ]; do
  if [ $w -eq 1 ]; then d=/root/wt/vseed; else d=/root/wt/vseed$w; fi
  eval "l=\$list$w"
  ( for s in $l; do tools/verify_seed.py check seeded/$s --tier $tier --no-setup --verif $d 2>&1 | tail -1; done ) &
  w=$((w+1))
done
wait
