#!/bin/sh
# tools/run_seeds.sh [tier] [ids...] -- run the registered check of every confirmed seed whose property is
# claimed, from a separate checkout of the committed framework (never touches /repo or /verif's build)
cd "$(dirname "$0")/.."
tier=${1:-quick}; shift
ids=${@:-$(ls seeded)}
first=1
for s in $ids; do
  pid=$(echo $s | cut -d- -f1)
  grep -qx $pid tools/claimed.txt || continue
  grep -q obsolete_after_fix seeded/$s/meta.json && continue
  if [ $first = 1 ]; then tools/verify_seed.py check seeded/$s --tier $tier 2>&1 | tail -1; first=0
  else tools/verify_seed.py check seeded/$s --tier $tier --no-setup 2>&1 | tail -1; fi
done
