#!/venv/bin/python
"""Markdown table of seeded/<id>/ : what each change breaks, what it needs, which check caught it."""
import glob, json, os
HERE = os.path.dirname(os.path.dirname(os.path.abspath(__file__)))
rows = []
for d in sorted(glob.glob(os.path.join(HERE, 'seeded', '*'))):
    try:
        meta = json.load(open(os.path.join(d, 'meta.json')))
    except IOError:
        continue
    res = {}
    for t in ('quick', 'thorough'):
        f = os.path.join(d, 'result_%s.json' % t)
        if os.path.exists(f):
            res[t] = json.load(open(f))
    def cell(t):
        r = res.get(t)
        if not r:
            return '-'
        if not r['caught']:
            return 'MISSED'
        return 'caught' + (' (failing input)' if r.get('with_failing_input') else ' (no-failing-input-found)')
    rows.append('| %s | %s | %s | %s | %s | %s |' % (
        os.path.basename(d), meta.get('breaks') or meta.get('property'),
        (meta.get('summary') or '').replace('|', '/').replace('\n', ' ')[:160],
        (meta.get('needs_to_manifest') or meta.get('needs') or '').replace('|', '/').replace('\n', ' ')[:140],
        cell('quick'), cell('thorough')))
print('| seed | property | change | needs to manifest | quick check | thorough check |')
print('|---|---|---|---|---|---|')
print('\n'.join(rows))
